"""C23 HTTP11ClientProtocol response handling — connection loss at every byte position.

Monitored (API boundary only): firings of the Deferred returned by HTTP11ClientProtocol.request
(value / failure type), the body protocol's makeConnection / dataReceived / connectionLost calls,
exceptions escaping dataReceived / connectionLost / deliverBody, failures logged meanwhile.
Fault enumeration: for every generated response, the connection is lost after each prefix
response[:k], k = 0..len (all k for responses up to 400 bytes, header region + boundaries + random
positions for longer ones), each with several segmentations and body-delivery policies.

Oracle: a lenient reference reader (this module; RFC 9112 response framing with the request
method as context, LF-only line ends, obs-fold, duplicate equal Content-Length, chunk extensions,
trailers, interim 1xx) applied to the bytes *actually handed to the protocol*:
  * the Deferred fires exactly once: nothing received -> ResponseNeverReceived; final header block
    incomplete or malformed -> ResponseFailed (not ResponseNeverReceived); complete -> a response
    with the reference status code;
  * body protocol: bytes delivered == reference body bytes of the received prefix; connectionLost
    exactly once, nothing after it: ResponseDone iff the body is complete (Content-Length reached,
    last chunk + trailers + CRLF, or HEAD/204/304), PotentialDataLoss for a close-delimited body,
    any other failure for a truncated or malformed one.
The generator's own description of each response and h11 (client role) are cross-checked against
the reference reader on the complete message; a disagreement there is a harness problem and
reported INCONCLUSIVE, never as a violation.

Guards: only clear-cut malformations are generated (non-numeric status code, bad version token,
conflicting / non-numeric Content-Length, header line without colon, bad chunk size, chunk data not
followed by CRLF); the failure type for a truncated body is not prescribed beyond "not ResponseDone,
not PotentialDataLoss"; the simulator honours the transport pause the parser requests (one policy
deliberately keeps delivering a few segments to exercise buffering — the statement allows any
segmentation); when the client closes (response complete, parse error) nothing more is delivered.
"""
import random

LEVEL = "fault_enumeration"
ENGINE = "E2-netsim"
TECHNIQUE = "runtime monitoring: lenient reference response reader on the delivered prefix vs. request Deferred and body-protocol events"
RULE = ("responses from a structured generator (GET/HEAD/POST requests, persistent or not; 0-2 interim 1xx, half of them carrying Content-Length / Transfer-Encoding / Connection headers of their own; HTTP/1.0/1.1; "
        "reason present/empty/missing; CRLF or LF-only line ends; folded headers; Content-Length plain/duplicate/list/"
        "folded/zero-padded, chunked with extensions, padded sizes and trailers, close-delimited, HEAD/204/304 with stray "
        "framing headers; 25% serialised by h11; clear-cut malformed variants; trailing bytes) x connection loss at every "
        "byte position x segmentations (whole, random, byte-wise) x body-delivery policy (immediate, after return, late "
        "despite pause, after loss, never).  Distinct by (response bytes, k, segment lengths, policy, request method); "
        "non-trivial = k > 0.")
ASSUMPTIONS = ["trusted base: the lenient reference response reader in this module, cross-checked per response with the generator's description and with h11 (client role)",
               "the in-memory transport models a TCP transport: honours pauseProducing, delivers nothing after loseConnection, connectionLost exactly once",
               "request bodies are small and written synchronously, so the request is fully sent before the first response byte (the TRANSMITTING states are not part of the statement)"]
SHARDS = {"quick": 4, "thorough": 16}
FLOORS = {"runs": 20000, "truncation_points": 5000, "deferred_response": 5000, "deferred_response_failed": 2000, "deferred_never_received": 200,
          "body_lost_ResponseDone": 1500, "body_lost_PotentialDataLoss": 500, "body_lost_truncated": 1500, "body_bytes_compared": 20000,
          "interim_skipped": 500, "policy_immediate": 1000, "policy_after-return": 1000, "policy_ignore-pause": 500, "policy_after-loss": 1000,
          "h11_crosschecks": 50, "responses_with_framing_headers_on_interim": 20, "malformed_head_runs": 300, "head_or_nobody_runs": 1000}
READY = True

NOBODY_CODES = (204, 304)


# --------------------------------------------------------------------------- reference reader
def _decimal(b):
    b = b.strip(b" \t")
    return int(b) if b.isdigit() else None


def ref_chunked(b):
    """-> (payload so far, state) with state in complete / incomplete / malformed.  RFC 9112 7.1."""
    pos = 0
    out = bytearray()
    n = len(b)
    while True:
        i = b.find(b"\r\n", pos)
        if i < 0:
            return bytes(out), "incomplete"
        line = b[pos:i]
        size_part = line.split(b";", 1)[0]
        if not size_part or any(c not in b"0123456789abcdefABCDEF" for c in size_part):
            return bytes(out), "malformed"
        size = int(size_part, 16)
        pos = i + 2
        if size == 0:
            while True:
                j = b.find(b"\r\n", pos)
                if j < 0:
                    return bytes(out), "incomplete"
                if j == pos:
                    return bytes(out), "complete"
                pos = j + 2
        out += b[pos:pos + size]
        if n < pos + size:
            return bytes(out), "incomplete"
        pos += size
        tail = b[pos:pos + 2]
        if len(tail) < 2:
            return bytes(out), "incomplete" if b"\r\n".startswith(tail) else "malformed"
        if tail != b"\r\n":
            return bytes(out), "malformed"
        pos += 2


def ref_parse(data, method):
    """Reference reading of the bytes a client received in answer to `method`."""
    res = {"any": len(data) > 0, "head": "incomplete", "code": None, "interim": 0, "body": b"", "body_state": None, "framing": None}
    pos = 0
    while True:
        lines = []
        while True:
            i = data.find(b"\n", pos)
            if i < 0:
                # an incomplete head may already be malformed, but then the outcome is the same: failure
                return res
            line = data[pos:i]
            pos = i + 1
            if line.endswith(b"\r"):
                line = line[:-1]
            if not line and lines:
                break
            lines.append(line)
        parts = lines[0].split(b" ", 2)
        if len(parts) < 2 or not parts[1].isdigit():
            res["head"] = "malformed"
            return res
        v = parts[0]
        if v != b"HTTP/1.1":
            ok = v.count(b"/") == 1 and v.split(b"/")[1].count(b".") == 1 and all(x.isdigit() for x in v.split(b"/")[1].split(b"."))
            if not ok:
                res["head"] = "malformed"
                return res
        code = int(parts[1])
        headers = []
        for l in lines[1:]:
            if l[:1] in (b" ", b"\t"):
                if not headers:
                    res["head"] = "malformed"
                    return res
                headers[-1] += l
            else:
                headers.append(l)
        fields = []
        for h in headers:
            if b":" not in h:
                res["head"] = "malformed"
                return res
            n, val = h.split(b":", 1)
            fields.append((n.strip().lower(), val.strip()))
        if 100 <= code < 200:
            res["interim"] += 1
            continue
        break
    res["code"] = code
    rest = data[pos:]
    if method == b"HEAD" or code in NOBODY_CODES:
        res.update(head="complete", framing="none", body=b"", body_state="complete")
        return res
    te = [v for n, v in fields if n == b"transfer-encoding"]
    cl = [v for n, v in fields if n == b"content-length"]
    if te:
        if te[0].lower() != b"chunked":
            res["head"] = "malformed"
            return res
        body, st = ref_chunked(rest)
        res.update(head="complete", framing="chunked", body=body, body_state=st)
        return res
    if cl:
        vals = {_decimal(x) for x in b",".join(cl).split(b",")}
        if None in vals or len(vals) != 1:
            res["head"] = "malformed"
            return res
        n = vals.pop()
        res.update(head="complete", framing="content-length", body=rest[:n], body_state="complete" if len(rest) >= n else "incomplete")
        return res
    res.update(head="complete", framing="close", body=rest, body_state="close-delimited")
    return res


# ------------------------------------------------------------------------------------ generator
def _rand_body(rng):
    r = rng.random()
    n = 0 if r < 0.1 else 1 if r < 0.15 else rng.randint(2, 40) if r < 0.7 else rng.randint(41, 300) if r < 0.95 else rng.randint(300, 1500)
    b = bytearray(rng.randrange(256) for _ in range(n))
    if n >= 8 and rng.random() < 0.4:  # framing look-alikes inside the payload
        tok = rng.choice([b"\r\n0\r\n\r\n", b"\r\n\r\n", b"\n\n", b"0\r\n", b"HTTP/1.1 200 OK\r\n"])[: n - 1]
        p = rng.randint(0, n - len(tok))
        b[p:p + len(tok)] = tok
    return bytes(b)


def _chunked_encode(rng, body, malformed):
    out = bytearray()
    pos = 0
    sizes = []
    while pos < len(body):
        k = rng.randint(1, max(1, min(len(body) - pos, rng.choice([1, 3, 16, 64, 400]))))
        sizes.append(k)
        pos += k
    bad_at = rng.randrange(len(sizes)) if (malformed in ("bad-chunk-size", "chunk-no-crlf") and sizes) else None
    pos = 0
    good = bytearray()
    for i, k in enumerate(sizes):
        hx = ("%x" if rng.random() < 0.6 else "%X") % k
        if rng.random() < 0.2:
            hx = "0" * rng.randint(1, 3) + hx
        ext = rng.choice(["", "", "", ";ext", ";a=b", ';q="x y"', ";a=b;c=d"])
        if bad_at == i and malformed == "bad-chunk-size":
            out += rng.choice([b"0x5", b"-1", b"5g", b"", b" 5", b"+5", b"5 "]) + b"\r\n"
            return bytes(out), bytes(good), False
        out += hx.encode() + ext.encode() + b"\r\n" + body[pos:pos + k]
        good += body[pos:pos + k]
        if bad_at == i and malformed == "chunk-no-crlf":
            out += rng.choice([b"XY", b"\n\r", b"\rX", b"ab\r\n"])
            out += b"0\r\n\r\n"
            return bytes(out), bytes(good), False
        out += b"\r\n"
        pos += k
    if malformed in ("bad-chunk-size", "chunk-no-crlf") and bad_at is None:
        out += b"zz\r\n"
        return bytes(out), bytes(good), False
    out += rng.choice([b"0", b"0", b"000", b"0;last=1"]) + b"\r\n"
    for _ in range(rng.choice([0, 0, 0, 1, 2])):
        out += rng.choice([b"X-Trailer: v", b"Checksum: abc123", b"X-T:"]) + b"\r\n"
    out += b"\r\n"
    return bytes(out), bytes(good), True


def gen_response(rng):
    """-> description dict incl. raw bytes and, for the complete message, expected body/state."""
    method = rng.choice([b"GET", b"GET", b"GET", b"HEAD", b"POST"])
    r = rng.random()
    code = rng.choice(NOBODY_CODES) if r < 0.12 else rng.choice([200, 200, 200, 201, 206, 301, 404, 500, 503])
    nobody = method == b"HEAD" or code in NOBODY_CODES
    framing = rng.choice(["cl", "cl", "chunked", "chunked", "close"])
    body = _rand_body(rng)
    malformed = None
    if rng.random() < 0.10:
        malformed = rng.choice(["bad-status-code", "bad-version", "conflicting-cl", "non-numeric-cl", "header-no-colon", "bad-chunk-size", "chunk-no-crlf"])
        if malformed in ("conflicting-cl", "non-numeric-cl"):
            framing, nobody_ok = "cl", False
            if nobody:
                method, code, nobody = b"GET", 200, False
        if malformed in ("bad-chunk-size", "chunk-no-crlf"):
            framing = "chunked"
            if nobody:
                method, code, nobody = b"GET", 200, False
    eol = b"\r\n" if rng.random() < 0.8 else b"\n"
    version = b"HTTP/1.1" if rng.random() < 0.8 else rng.choice([b"HTTP/1.0", b"HTTP/1.1", b"HTTP/2.0", b"ICY/1.0"])
    reason = rng.choice([b" OK", b" OK", b"", b" ", b" Not Found", b" Multi Word Reason ", b" \xe9"])
    raw = bytearray()
    n_interim = rng.choice([0, 0, 0, 0, 0, 1, 1, 1, 2])
    n_framed_interim = 0
    for _ in range(n_interim):
        ie = eol if rng.random() < 0.8 else (b"\n" if eol == b"\r\n" else b"\r\n")
        raw += b"HTTP/1.1 " + rng.choice([b"100 Continue", b"102 Processing", b"103 Early Hints", b"100", b"199 "]) + ie
        for _ in range(rng.choice([0, 0, 1, 2])):
            raw += rng.choice([b"Link: </s.css>; rel=preload", b"X-Interim: 1", b"Server: i"]) + ie
        if rng.random() < 0.5:
            # framing / connection-control headers carried by the interim response itself: a 1xx response
            # never has a body and its header fields must not influence how the final response is framed
            pool = [rng.choice([b"Content-Length: 0", b"Content-Length: %d" % rng.choice([1, 5, 7, 1000]), b"content-length: 3"]),
                    b"Transfer-Encoding: chunked", b"Connection: close", b"Connection: keep-alive", b"Keep-Alive: timeout=5",
                    b"Upgrade: h2c", b"Trailer: X-T", b"TE: trailers", b"Proxy-Connection: close"]
            picks = rng.sample(pool, rng.choice([1, 1, 2, 3]))
            if rng.random() < 0.6 and pool[0] not in picks:
                picks[0] = pool[0]
            for hline in picks:
                raw += hline + ie
            n_framed_interim += 1
        raw += ie
    status_code = b"%d" % code
    if malformed == "bad-status-code":
        status_code = rng.choice([b"2xx", b"abc", b"", b"20O", b"-200x"])
    if malformed == "bad-version":
        version = rng.choice([b"HTTP/1", b"HTTP/x.y", b"HTTP1.1", b"HTTP/1.1.1", b"HTTP/"])
    raw += version + b" " + status_code + reason + eol
    hdrs = []
    for _ in range(rng.choice([0, 1, 2, 3, 4])):
        name, val = rng.choice([(b"Server", b"ref/1.0"), (b"Date", b"Mon, 01 Jan 2024 00:00:00 GMT"), (b"X-Foo", b"bar baz"), (b"Content-Type", b"text/plain; charset=utf-8"),
                                (b"Set-Cookie", b"a=b; Path=/"), (b"X-Empty", b""), (b"x-lower", b"\xe9\xff"), (b"Connection", b"keep-alive"), (b"Connection", b"close"),
                                (b"ETag", b'"x:y"')])
        style = rng.random()
        if style < 0.15 and b" " in val:
            a, b2 = val.split(b" ", 1)
            hdrs.append(name + b": " + a + eol + rng.choice([b" ", b"\t", b"   "]) + b2)  # obs-fold
        elif style < 0.3:
            hdrs.append(name + b":" + val)
        elif style < 0.4:
            hdrs.append(name + b":  " + val + b"  ")
        else:
            hdrs.append(name + b": " + val)
    n = len(body)
    fr = []
    if framing == "cl":
        st = rng.random()
        if malformed == "conflicting-cl":
            fr = rng.choice([[b"Content-Length: %d" % n, b"Content-Length: %d" % (n + 1)], [b"Content-Length: %d, %d" % (n, n + 2)]])
        elif malformed == "non-numeric-cl":
            fr = [b"Content-Length: " + rng.choice([b"12a", b"-5", b"+5", b"abc", b"1.0", b"0x10", b""])]
        elif st < 0.5:
            fr = [b"Content-Length: %d" % n]
        elif st < 0.6:
            fr = [b"Content-Length: %d" % n, b"content-length: %d" % n]
        elif st < 0.7:
            fr = [b"Content-Length: %d, %d" % (n, n)]
        elif st < 0.78:
            fr = [b"Content-Length: %d,0%d" % (n, n)]
        elif st < 0.86:
            fr = [b"Content-Length:" + eol + b" %d" % n]
        elif st < 0.93:
            fr = [b"CONTENT-LENGTH:   00%d  " % n]
        else:
            fr = [b"Content-Length:%d" % n]
    elif framing == "chunked":
        fr = [rng.choice([b"Transfer-Encoding: chunked", b"Transfer-Encoding: chunked", b"transfer-encoding: Chunked", b"Transfer-Encoding:chunked"])]
        if rng.random() < 0.1:
            fr.append(b"Content-Length: %d" % (n + 7))  # Transfer-Encoding wins
    if nobody and rng.random() < 0.6:
        fr = fr if rng.random() < 0.7 else []
    elif nobody:
        fr = []
    allh = hdrs + fr
    rng.shuffle(allh)
    if malformed == "header-no-colon":
        allh.insert(rng.randint(0, len(allh)), rng.choice([b"NoColonHere", b"HTTP/1.1 200 OK", b"garbage line"]))
    for h in allh:
        raw += h + eol
    raw += eol
    hdr_end = len(raw)
    exp_body, complete_state = b"", "complete"
    if nobody:
        pass
    elif framing == "cl":
        raw += body
        exp_body = body
    elif framing == "chunked":
        enc, good, ok = _chunked_encode(rng, body, malformed)
        raw += enc
        exp_body, complete_state = good, ("complete" if ok else "malformed")
    else:
        raw += body
        exp_body, complete_state = body, "close-delimited"
    msg_end = len(raw)
    if framing != "close" or nobody:
        if rng.random() < 0.12:
            raw += rng.choice([b"HTTP/1.1 200 OK\r\nContent-Length: 2\r\n\r\nhi", b"\r\n", b"garbage", b"0\r\n\r\n"])
    head_malformed = malformed in ("bad-status-code", "bad-version", "conflicting-cl", "non-numeric-cl", "header-no-colon")
    return {"method": method, "code": code, "framing": "none" if nobody else framing, "malformed": malformed, "raw": bytes(raw), "hdr_end": hdr_end,
            "msg_end": msg_end, "exp_body": exp_body, "complete_state": complete_state, "head_malformed": head_malformed, "interim": n_interim,
            "framed_interim": n_framed_interim, "persistent": rng.random() < 0.3, "source": "generator"}


def gen_h11_response(rng):
    """A canonical response serialised by h11 (server role)."""
    import h11

    method = rng.choice([b"GET", b"GET", b"HEAD", b"POST"])
    code = rng.choice([200, 200, 404, 204, 304, 201])
    http10 = rng.random() < 0.25
    c = h11.Connection(h11.SERVER)
    c.receive_data(method + b" / " + (b"HTTP/1.0" if http10 else b"HTTP/1.1") + b"\r\nHost: h\r\n" + (b"Content-Length: 0\r\n" if method == b"POST" else b"") + b"\r\n")
    while True:
        e = c.next_event()
        if e is h11.NEED_DATA or isinstance(e, h11.EndOfMessage):
            break
    raw = bytearray()
    n_interim = 0
    framed_interim = 0
    if rng.random() < 0.25 and not http10:
        ih = [(b"X-Interim", b"1")]
        if rng.random() < 0.5:
            ih.append(rng.choice([(b"Content-Length", b"0"), (b"Content-Length", b"4"), (b"Connection", b"close"), (b"Keep-Alive", b"timeout=5")]))
            framed_interim = 1
        raw += c.send(h11.InformationalResponse(status_code=rng.choice([100, 102, 103]), headers=ih))
        n_interim = 1
    body = _rand_body(rng)
    nobody = method == b"HEAD" or code in NOBODY_CODES
    headers = [(b"Server", b"h11"), (b"X-Foo", b"bar")]
    use_cl = rng.random() < 0.5
    if use_cl and code not in NOBODY_CODES:
        headers.append((b"Content-Length", b"%d" % len(body)))
    raw += c.send(h11.Response(status_code=code, headers=headers, reason=rng.choice([b"OK", b"", b"Whatever"])))
    hdr_end = len(raw)
    if not nobody:
        pos = 0
        while pos < len(body):
            k = rng.randint(1, max(1, len(body) - pos))
            raw += c.send(h11.Data(data=body[pos:pos + k]))
            pos += k
    raw += c.send(h11.EndOfMessage())
    framing = "none" if nobody else "cl" if use_cl else "close" if http10 else "chunked"
    return {"method": method, "code": code, "framing": framing, "malformed": None, "raw": bytes(raw), "hdr_end": hdr_end, "msg_end": len(raw),
            "exp_body": b"" if nobody else body, "complete_state": "close-delimited" if framing == "close" else "complete", "head_malformed": False,
            "interim": n_interim, "framed_interim": framed_interim, "persistent": rng.random() < 0.3, "source": "h11"}


def h11_client_view(desc):
    """(code, body, ended) as h11 in the client role reads the complete message, or None if it refuses."""
    import h11

    c = h11.Connection(h11.CLIENT, max_incomplete_event_size=1 << 20)
    try:
        c.send(h11.Request(method=desc["method"], target=b"/", headers=[(b"Host", b"h")] + ([(b"Content-Length", b"0")] if desc["method"] == b"POST" else [])))
        c.send(h11.EndOfMessage())
        c.receive_data(desc["raw"][:desc["msg_end"]])
        if desc["framing"] == "close":
            c.receive_data(b"")
        code, body, ended = None, bytearray(), False
        for _ in range(100000):
            e = c.next_event()
            if e is h11.NEED_DATA or e is h11.PAUSED:
                break
            if isinstance(e, h11.Response):
                code = e.status_code
            elif isinstance(e, h11.Data):
                body += e.data
            elif isinstance(e, h11.EndOfMessage):
                ended = True
                break
            elif isinstance(e, h11.ConnectionClosed):
                break
        return code, bytes(body), ended
    except h11.ProtocolError:
        return None


# -------------------------------------------------------------------------------------- harness
class Harness:
    def __init__(self):
        from twisted.internet import error
        from twisted.internet.protocol import Protocol
        from twisted.logger import globalLogPublisher
        from twisted.python.failure import Failure
        from twisted.web import _newclient
        from twisted.web.http import PotentialDataLoss
        from twisted.web.http_headers import Headers
        from vf.engines.logcap import LogCapture
        from vf.engines.netsim import SimTransport

        self.nc, self.Failure, self.error, self.Headers, self.SimTransport = _newclient, Failure, error, Headers, SimTransport
        self.PotentialDataLoss = PotentialDataLoss
        self.log = LogCapture()
        self.pub = globalLogPublisher
        self.pub.addObserver(self.log)

        class Body(Protocol):
            def __init__(s):
                s.data = bytearray()
                s.lost = []
                s.made = 0
                s.after_lost = 0

            def makeConnection(s, transport):
                s.made += 1
                Protocol.makeConnection(s, transport)

            def dataReceived(s, data):
                if s.lost:
                    s.after_lost += 1
                s.data += data

            def connectionLost(s, reason):
                s.lost.append(reason)

        self.Body = Body

    def close(self):
        try:
            self.pub.removeObserver(self.log)
        except ValueError:
            pass

    def producer(self):
        from twisted.internet.defer import succeed
        from twisted.web.iweb import IBodyProducer
        from zope.interface import implementer

        @implementer(IBodyProducer)
        class P:
            length = 5

            def startProducing(self, consumer):
                consumer.write(b"hello")
                return succeed(None)

            def pauseProducing(self):
                pass

            def resumeProducing(self):
                pass

            def stopProducing(self):
                pass

        return P()

    def run(self, desc, segs, policy, budget, loss_kind):
        nc = self.nc
        del self.log.events[:]
        proto = nc.HTTP11ClientProtocol()
        t = self.SimTransport()
        proto.makeConnection(t)
        req = nc.Request(desc["method"], b"/", self.Headers({b"host": [b"h"]}), self.producer() if desc["method"] == b"POST" else None, persistent=desc["persistent"])
        fired = []
        body = self.Body()
        st = {"resp": None, "delivered": False}
        escaped = []

        def deliver():
            st["delivered"] = True
            try:
                st["resp"].deliverBody(body)
            except Exception as e:
                escaped.append("deliverBody: %s: %s" % (type(e).__name__, e))

        def on_resp(r):
            fired.append(("response", r))
            st["resp"] = r
            if policy == "immediate":
                deliver()
            return None

        def on_fail(f):
            fired.append(("failure", f))
            return None

        proto.request(req).addCallbacks(on_resp, on_fail)
        received = bytearray()
        for seg in segs:
            if t.disconnecting:
                break
            if t.reading_paused:
                if policy == "ignore-pause" and budget > 0:
                    budget -= 1
                else:
                    break
            try:
                proto.dataReceived(seg)
            except Exception as e:
                escaped.append("dataReceived: %s: %s" % (type(e).__name__, e))
            received += seg
            if policy == "after-return" and st["resp"] is not None and not st["delivered"]:
                deliver()
        if policy == "ignore-pause" and st["resp"] is not None and not st["delivered"]:
            deliver()
        reason = self.Failure(self.error.ConnectionDone("closed") if loss_kind == 0 else self.error.ConnectionLost("reset"))
        try:
            proto.connectionLost(reason)
        except Exception as e:
            escaped.append("connectionLost: %s: %s" % (type(e).__name__, e))
        if policy == "after-loss" and st["resp"] is not None and not st["delivered"]:
            deliver()
        logged = self.log.failures()
        return bytes(received), fired, body, st, escaped, logged


def check(ctx, h, desc, k, segs, policy, out):
    received, fired, body, st, escaped, logged = out
    nc = h.nc
    ref = ref_parse(received, desc["method"])
    ctx.count("runs")
    ctx.count("policy_" + policy)
    wit = {"method": desc["method"], "persistent": desc["persistent"], "response": desc["raw"], "response_latin1": desc["raw"].decode("latin-1"),
           "source": desc["source"], "framing": desc["framing"], "malformed": desc["malformed"],
           "lost_after_k": k, "segment_lengths": [len(s) for s in segs][:60], "policy": policy, "bytes_delivered_to_protocol": len(received),
           "reference": {x: ref[x] for x in ("head", "code", "interim", "framing", "body_state")}, "reference_body_length": len(ref["body"]),
           "deferred": [(kind, type(v.value).__name__ if kind == "failure" else "code %s" % v.code) for kind, v in fired],
           "body_protocol": {"made": body.made, "bytes": len(body.data), "lost": [type(r.value).__name__ for r in body.lost], "data_after_lost": body.after_lost}}

    def bad(key, what, **kw):
        w = dict(wit)
        w.update(kw)
        ctx.violation(key, what, w)
        return False

    if escaped:
        return bad("exception-escaped", "an exception escaped the protocol", escaped=escaped[:3])
    if logged:
        return bad("logged-failure", "a failure was logged while handling the response: %s" % (logged[0][0],), logged=logged[:3])
    if len(fired) == 0:
        return bad("deferred-never-fired", "the request Deferred did not fire although the connection was lost")
    if len(fired) > 1:
        return bad("deferred-fired-twice", "the request Deferred's callbacks ran more than once")
    kind, val = fired[0]
    ctx.count("interim_skipped", ref["interim"])
    if not ref["any"]:
        if kind != "failure" or not val.check(nc.ResponseNeverReceived):
            return bad("never-received-mismatch", "no byte was received but the Deferred did not fail with ResponseNeverReceived")
        ctx.count("deferred_never_received")
        return True
    if ref["head"] != "complete":
        if ref["head"] == "malformed":
            ctx.count("malformed_head_runs")
        if kind != "failure":
            return bad("response-before-headers-complete", "the Deferred fired with a response although the final header block is %s" % ref["head"])
        if not val.check(nc.ResponseFailed) or val.check(nc.ResponseNeverReceived):
            return bad("wrong-failure-type", "bytes were received, the header block is %s: expected ResponseFailed (not ResponseNeverReceived)" % ref["head"],
                       failure=type(val.value).__name__)
        ctx.count("deferred_response_failed")
        return True
    if kind != "response":
        return bad("failure-after-complete-headers", "the final header block arrived completely and well-formed but the Deferred failed",
                   failure=type(val.value).__name__, failure_text=val.getErrorMessage()[:200])
    if val.code != ref["code"]:
        return bad("status-code-mismatch", "response.code differs from the reference status code", got=val.code)
    ctx.count("deferred_response")
    if ref["framing"] == "none":
        ctx.count("head_or_nobody_runs")
    if not st["delivered"]:
        ctx.count("no_body_protocol_runs")
        return True
    if body.made != 1:
        return bad("body-makeconnection-count", "body protocol makeConnection called %d times" % body.made)
    if bytes(body.data) != ref["body"]:
        n = 0
        while n < min(len(body.data), len(ref["body"])) and body.data[n] == ref["body"][n]:
            n += 1
        return bad("body-bytes-mismatch", "bytes delivered to the body protocol differ from the body bytes received",
                   delivered_length=len(body.data), first_difference_at=n)
    ctx.count("body_bytes_compared", len(ref["body"]))
    if body.after_lost:
        return bad("body-data-after-connectionlost", "dataReceived on the body protocol after its connectionLost")
    if len(body.lost) != 1:
        return bad("body-connectionlost-count", "body protocol connectionLost called %d times (expected exactly once)" % len(body.lost))
    reason = body.lost[0]
    state = ref["body_state"]
    if state == "complete":
        if not reason.check(nc.ResponseDone):
            return bad("complete-body-not-ResponseDone", "the whole body arrived but connectionLost got %s" % type(reason.value).__name__)
        ctx.count("body_lost_ResponseDone")
    elif state == "close-delimited":
        if not reason.check(h.PotentialDataLoss):
            return bad("close-delimited-not-PotentialDataLoss", "close-delimited body: connectionLost got %s" % type(reason.value).__name__)
        ctx.count("body_lost_PotentialDataLoss")
    else:
        if reason.check(nc.ResponseDone, h.PotentialDataLoss):
            return bad("truncated-body-reported-%s" % type(reason.value).__name__,
                       "the body is %s but connectionLost got %s" % (state, type(reason.value).__name__))
        ctx.seen("truncated_reason_types", type(reason.value).__name__)
        ctx.count("body_lost_truncated")
    return True


# ----------------------------------------------------------------------------------- workload
POLICIES = ["immediate"] * 7 + ["after-return"] * 4 + ["ignore-pause"] * 3 + ["after-loss"] * 3 + ["never"] * 3


def split_random(rng, data):
    from vf.engines.netsim import random_split

    return random_split(rng, data) if data else []


def selfcheck(ctx, desc):
    """Generator description and h11 vs. the reference reader, on the complete message.  False = harness problem."""
    full = desc["raw"][:desc["msg_end"]]
    ref = ref_parse(full, desc["method"])
    if desc["head_malformed"]:
        ok = ref["head"] == "malformed"
    else:
        ok = ref["head"] == "complete" and ref["body"] == desc["exp_body"] and ref["body_state"] == desc["complete_state"] and ref["code"] == desc["code"] \
            and ref["interim"] == desc["interim"]
    if not ok:
        ctx.inconclusive("harness: generator description and reference reader disagree on %r (malformed=%s): %r" % (full[:200], desc["malformed"], {x: ref[x] for x in ("head", "code", "body_state", "interim")}))
        return False
    if desc["malformed"] is None:
        v = h11_client_view(desc)
        if v is None:
            ctx.count("h11_refused")
        else:
            ctx.count("h11_crosschecks")
            code, body, ended = v
            if code != ref["code"] or body != ref["body"] or (ended != (ref["body_state"] in ("complete", "close-delimited"))):
                ctx.inconclusive("harness: h11 and the reference reader disagree on %r: h11=(%s, %d bytes, ended=%s) ref=(%s, %d bytes, %s)"
                                 % (full[:200], code, len(body), ended, ref["code"], len(ref["body"]), ref["body_state"]))
                return False
    return True


def positions(rng, desc):
    n = len(desc["raw"])
    if n <= 400:
        return list(range(n + 1))
    ks = set(range(min(n, desc["hdr_end"] + 40) + 1))
    ks.update(range(max(0, desc["msg_end"] - 12), n + 1))
    ks.update(rng.randrange(n + 1) for _ in range(60))
    return sorted(ks)


def run_response(ctx, h, desc, rng, sample=False):
    if not selfcheck(ctx, desc):
        return
    ctx.count("responses")
    if desc.get("framed_interim"):
        ctx.count("responses_with_framing_headers_on_interim")
    ctx.count("responses_" + desc["source"])
    ctx.seen("framings", desc["framing"] + ("/" + desc["malformed"] if desc["malformed"] else ""))
    raw = desc["raw"]
    plan = [(k, None) for k in positions(rng, desc)]
    # the loss-free ends (whole message, whole message + trailing bytes) under every delivery policy
    for k in sorted({desc["msg_end"], len(raw)}):
        plan += [(k, p) for p in ("immediate", "after-return", "ignore-pause", "after-loss", "never")]
    for k, forced in plan:
        if forced is None:
            ctx.count("truncation_points")
        prefix = raw[:k]
        variants = [[prefix] if prefix else []]
        if k > 1:
            variants.append(split_random(rng, prefix))
        if 1 < k <= 120 and rng.random() < 0.15:
            variants.append([prefix[i:i + 1] for i in range(k)])
        for segs in variants:
            policy = forced or rng.choice(POLICIES)
            budget = rng.randint(1, 4)
            out = h.run(desc, segs, policy, budget, rng.randrange(2))
            ctx.evaluated()
            if k > 0:
                ctx.distinct((raw, k, tuple(len(s) for s in segs), policy, desc["method"], desc["persistent"]))
            ok = check(ctx, h, desc, k, segs, policy, out)
            if sample and k == len(raw) and segs is variants[0]:
                received, fired, body, st, escaped, logged = out
                ctx.sample({"method": desc["method"], "response": raw[:300], "lost_after_k": k, "policy": policy,
                            "deferred": [(kd, type(v.value).__name__ if kd == "failure" else "code %s" % v.code) for kd, v in fired],
                            "body_bytes": len(body.data), "body_lost": [type(r.value).__name__ for r in body.lost]})


def run(ctx):
    # reference reader self-test
    assert ref_chunked(b"3\r\nabc\r\n0\r\n\r\n") == (b"abc", "complete")
    assert ref_chunked(b"3\r\nabc\r\n0\r\n") == (b"abc", "incomplete")
    assert ref_chunked(b"3\r\nab") == (b"ab", "incomplete")
    assert ref_chunked(b"3\r\nabc\r") == (b"abc", "incomplete")
    assert ref_chunked(b"3\r\nabcX") == (b"abc", "malformed")
    assert ref_chunked(b"0x3\r\nabc") == (b"", "malformed")
    assert ref_chunked(b"1;e=1\r\na\r\n00\r\nT: v\r\n\r\n") == (b"a", "complete")
    r = ref_parse(b"HTTP/1.1 100 Continue\r\n\r\nHTTP/1.1 200 OK\nContent-Length:\n 2\n\nabc", b"GET")
    assert (r["head"], r["code"], r["interim"], r["body"], r["body_state"]) == ("complete", 200, 1, b"ab", "complete"), r
    assert ref_parse(b"HTTP/1.1 200 OK\r\nContent-Length: 5\r\n\r\nab", b"HEAD")["body_state"] == "complete"
    assert ref_parse(b"HTTP/1.1 200 OK\r\nContent-Length: 5, 6\r\n\r\nab", b"GET")["head"] == "malformed"
    assert ref_parse(b"HTTP/1.1 200 OK\r\n\r\nab", b"GET")["body_state"] == "close-delimited"
    assert ref_parse(b"HTTP/1.1 200 OK\r\nX: y\r\n", b"GET")["head"] == "incomplete"
    h = Harness()
    try:
        for i in ctx.cases(400, 30000):
            rng = ctx.case_rng(i)
            desc = gen_h11_response(rng) if rng.random() < 0.25 else gen_response(rng)
            run_response(ctx, h, desc, rng, sample=i < 2 * ctx.nshards)
    finally:
        h.close()


def replay(ctx, w):
    x = w["witness"]
    raw = x["response_latin1"].encode("latin-1")
    m = x["method"]
    method = (m[2:] if m.startswith("b:") else m).encode()
    desc = {"method": method, "persistent": x["persistent"], "raw": raw, "source": x["source"], "framing": x["framing"], "malformed": x["malformed"]}
    k = x["lost_after_k"]
    prefix = raw[:k]
    segs, pos = [], 0
    for n in x["segment_lengths"]:
        segs.append(prefix[pos:pos + n])
        pos += n
    if pos < k:
        segs.append(prefix[pos:])
    h = Harness()
    try:
        out = h.run(desc, segs, x["policy"], 4, 0)
        ctx.evaluated()
        ctx.distinct((raw, k))
        check(ctx, h, desc, k, segs, x["policy"], out)
    finally:
        h.close()
