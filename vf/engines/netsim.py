"""E2 — deterministic in-memory network for protocol-level monitors (py3.11 compatible).

SimTransport provides ITransport/IConsumer/IPushProducer the way a TCP transport does, where it
matters for the monitored properties:

* write()/writeSequence() append to an outgoing byte queue unless the connection is gone;
* after loseConnection() nothing more is delivered TO this side (a real transport stops reading),
  the outgoing queue is still flushed to the peer, then both sides get connectionLost exactly once;
* abortConnection() discards queued outgoing bytes;
* registerProducer/unregisterProducer as abstract.FileDescriptor: a streaming producer can be
  paused/resumed by the simulator ("buffer full"), a pull producer is asked to resumeProducing when
  the queue is empty; loseConnection() is deferred while a producer is registered;
* pauseProducing()/resumeProducing()/stopProducing() (the transport as the protocol's producer)
  gate delivery to this side.

The Link drives two sides; the property's scheduler decides what moves and when.
"""
from zope.interface import implementer

from twisted.internet import interfaces, address, error
from twisted.python import failure


@implementer(interfaces.ITCPTransport, interfaces.IConsumer, interfaces.IPushProducer)
class SimTransport:
    def __init__(self, name="t", host=("127.0.0.1", 1000), peer=("127.0.0.2", 2000), log=None):
        self.name = name
        self._host = address.IPv4Address("TCP", *host)
        self._peer = address.IPv4Address("TCP", *peer)
        self.out = []  # chunks not yet taken by the link
        self.written = bytearray()  # everything ever written (accepted)
        self.disconnecting = False
        self.disconnected = False  # connectionLost delivered to our protocol
        self.aborted = False
        self.write_closed = False  # loseWriteConnection requested
        self.producer = None
        self.streaming = False
        self.producer_paused = False
        self.reading_paused = False
        self.stopped = False
        self.protocol = None
        self.log = log if log is not None else []
        self.connected = True
        self.lose_requested_at = None

    # --- ITransport ---
    def write(self, data):
        if not isinstance(data, (bytes, bytearray)):
            raise TypeError("Data must be bytes, got %r" % (type(data),))
        if self.disconnected or self.aborted or self.write_closed:
            self.log.append((self.name, "write-dropped", len(data)))
            return
        if data:
            self.out.append(bytes(data))
            self.written += data

    def writeSequence(self, seq):
        for d in seq:
            self.write(d)

    def loseConnection(self, _connDone=None):
        if not self.disconnecting and not self.disconnected:
            self.disconnecting = True
            self.lose_requested_at = len(self.written)
            self.log.append((self.name, "loseConnection", len(self.written)))

    def loseWriteConnection(self):
        self.write_closed_requested = True
        self.log.append((self.name, "loseWriteConnection", len(self.written)))

    def abortConnection(self):
        if not self.disconnected:
            self.aborted = True
            self.disconnecting = True
            self.out[:] = []
            self.log.append((self.name, "abortConnection", len(self.written)))

    def getPeer(self):
        return self._peer

    def getHost(self):
        return self._host

    def getTcpNoDelay(self):
        return False

    def setTcpNoDelay(self, enabled):
        pass

    def getTcpKeepAlive(self):
        return False

    def setTcpKeepAlive(self, enabled):
        pass

    # --- IConsumer ---
    def registerProducer(self, producer, streaming):
        if self.producer is not None:
            raise RuntimeError("Cannot register producer %s, because producer %s was never unregistered." % (producer, self.producer))
        if self.disconnected:
            producer.stopProducing()
            return
        self.producer = producer
        self.streaming = streaming
        self.producer_paused = False
        self.log.append((self.name, "registerProducer", streaming))

    def unregisterProducer(self):
        self.producer = None
        self.log.append((self.name, "unregisterProducer"))

    # --- IPushProducer (the transport as producer for the protocol) ---
    def pauseProducing(self):
        self.reading_paused = True
        self.log.append((self.name, "pauseProducing"))

    def resumeProducing(self):
        self.reading_paused = False
        self.log.append((self.name, "resumeProducing"))

    def stopProducing(self):
        self.loseConnection()

    # --- simulator side ---
    def pending(self):
        return sum(len(c) for c in self.out)

    def take(self, n=None):
        """Remove and return up to n bytes from the outgoing queue (all when n is None)."""
        buf = b"".join(self.out)
        if n is None or n >= len(buf):
            self.out[:] = []
            return buf
        self.out[:] = [buf[n:]]
        return buf[:n]

    def sim_pause_producer(self):
        if self.producer is not None and self.streaming and not self.producer_paused:
            self.producer_paused = True
            self.producer.pauseProducing()

    def sim_resume_producer(self):
        """What a transport does when its buffer drains."""
        if self.producer is not None and (not self.streaming or self.producer_paused):
            self.producer_paused = False
            self.producer.resumeProducing()
            return True
        return False


class Side:
    def __init__(self, protocol, transport):
        self.protocol = protocol
        self.transport = transport
        self.received = bytearray()
        self.lost = 0
        self.lost_reasons = []
        self.data_after_lost = 0


class Link:
    """Two protocol/transport sides 'a' and 'b'.  deliver(x) moves bytes written by x to the other."""

    def __init__(self, proto_a, proto_b, log=None, names=("a", "b")):
        self.log = log if log is not None else []
        ta = SimTransport(names[0], ("10.0.0.1", 1111), ("10.0.0.2", 2222), self.log)
        tb = SimTransport(names[1], ("10.0.0.2", 2222), ("10.0.0.1", 1111), self.log)
        self.a = Side(proto_a, ta)
        self.b = Side(proto_b, tb)
        ta.protocol, tb.protocol = proto_a, proto_b

    def connect(self, first="a"):
        order = (self.a, self.b) if first == "a" else (self.b, self.a)
        for s in order:
            s.protocol.makeConnection(s.transport)

    def other(self, side):
        return self.b if side is self.a else self.a

    def side(self, name):
        return self.a if name == "a" else self.b

    def can_deliver(self, src):
        dst = self.other(src)
        return src.transport.pending() > 0 and not dst.transport.reading_paused and not dst.transport.disconnecting and not dst.lost

    def deliver(self, src, n=None):
        """Deliver up to n bytes written by src to the other side's protocol.  Returns bytes moved."""
        dst = self.other(src)
        if dst.lost or dst.transport.disconnecting:
            # peer stopped reading: bytes are discarded by the network
            src.transport.take(n)
            return 0
        if dst.transport.reading_paused:
            return 0
        data = src.transport.take(n)
        if not data:
            return 0
        dst.received += data
        dst.protocol.dataReceived(data)
        return len(data)

    def lose(self, side, reason=None):
        """Deliver connectionLost to `side` (once)."""
        if side.lost:
            return False
        side.lost += 1
        side.transport.disconnected = True
        side.transport.connected = False
        if reason is None:
            reason = failure.Failure(error.ConnectionDone("Connection was closed cleanly."))
        side.lost_reasons.append(reason)
        p = side.transport.producer
        side.protocol.connectionLost(reason)
        return True

    def finish_close(self, side):
        """Complete a loseConnection()/abort by `side`: flush its queue to the peer (unless aborted),
        then connectionLost on both sides (closer first with ConnectionDone/Aborted)."""
        other = self.other(side)
        if side.transport.aborted:
            self.lose(side, failure.Failure(error.ConnectionAborted()))
            self.lose(other, failure.Failure(error.ConnectionLost()))
            return
        while side.transport.pending() and not other.lost and not other.transport.disconnecting:
            if other.transport.reading_paused:
                break
            self.deliver(side)
        self.lose(side)
        self.lose(other)

    def pump(self, rng=None, max_steps=100000, chunk=None):
        """Move everything deliverable until quiescent; honours pauses and close requests.
        `chunk(rng, pending)` chooses segment sizes (default: everything)."""
        steps = 0
        progress = True
        while progress and steps < max_steps:
            progress = False
            for src in (self.a, self.b):
                dst = self.other(src)
                while self.can_deliver(src) and steps < max_steps:
                    n = None
                    if chunk is not None:
                        n = chunk(rng, src.transport.pending())
                    if self.deliver(src, n):
                        progress = True
                    steps += 1
                if src.transport.pending() == 0 and src.transport.sim_resume_producer():
                    progress = True
                    steps += 1
            for s in (self.a, self.b):
                if s.transport.disconnecting and not s.lost and (s.transport.producer is None or s.transport.aborted):
                    self.finish_close(s)
                    progress = True
        return steps


def all_splits(data, cuts):
    """Every way to cut `data` into cuts+1 non-empty consecutive pieces."""
    import itertools

    n = len(data)
    for pos in itertools.combinations(range(1, n), cuts):
        prev = 0
        out = []
        for p in pos:
            out.append(data[prev:p])
            prev = p
        out.append(data[prev:])
        yield out


def random_split(rng, data, max_piece=None):
    """Random segmentation with a mix of tiny and large pieces."""
    out = []
    i = 0
    n = len(data)
    mode = rng.random()
    while i < n:
        if mode < 0.2:
            k = 1
        elif mode < 0.5:
            k = rng.randint(1, 4)
        elif mode < 0.8:
            k = rng.randint(1, max(1, min(n, max_piece or 64)))
        else:
            k = rng.randint(1, max(1, n))
        out.append(data[i:i + k])
        i += k
    return out
