"""E7 html5tok — WHATWG HTML tokenizer (spec section 13.2.5), restricted to the states a
document made of tags, attributes, text, comments and character references can reach from the
data state: data, tag open, end tag open, tag name, the attribute states, self-closing start tag,
bogus comment, markup declaration open, the ten comment states, CDATA section (only when
`cdata_allowed`, i.e. as in foreign content), and the character-reference states (named
references from the stdlib table `html.entities.html5`, which is the WHATWG table).

Not implemented (no tree construction stage drives the tokenizer): RCDATA/RAWTEXT/script-data/
PLAINTEXT states, and DOCTYPE is approximated by one ("doctype", raw-text-up-to->) token.  The
tokenizer therefore answers "what tokens does an HTML parser see in ordinary (data-state)
content", i.e. with script, style, textarea, title ... tokenized like ordinary elements; a caller
that feeds such names gets their XML-visible structure, not HTML's raw-text content model.

Input: str (callers map bytes 1:1 with latin-1).  Output: list of tokens
    ("text", s)  ("start", name, [(attr, value), ...], self_closing)  ("end", name)
    ("comment", data)  ("doctype", raw)
Adjacent character tokens are merged; duplicate attributes are dropped as the spec says.
`tokenize(s).errors` lists the parse-error codes met.  No twisted imports; see selftest().
"""
import re
from html.entities import html5 as _ENTITIES

WS = "\t\n\f "
ALPHA = "abcdefghijklmnopqrstuvwxyzABCDEFGHIJKLMNOPQRSTUVWXYZ"
DIGITS = "0123456789"
HEX = DIGITS + "abcdefABCDEF"
ALNUM = ALPHA + DIGITS
_MAXENT = max(len(k) for k in _ENTITIES)

_C1 = {
    0x80: 0x20AC, 0x82: 0x201A, 0x83: 0x0192, 0x84: 0x201E, 0x85: 0x2026, 0x86: 0x2020,
    0x87: 0x2021, 0x88: 0x02C6, 0x89: 0x2030, 0x8A: 0x0160, 0x8B: 0x2039, 0x8C: 0x0152,
    0x8E: 0x017D, 0x91: 0x2018, 0x92: 0x2019, 0x93: 0x201C, 0x94: 0x201D, 0x95: 0x2022,
    0x96: 0x2013, 0x97: 0x2014, 0x98: 0x02DC, 0x99: 0x2122, 0x9A: 0x0161, 0x9B: 0x203A,
    0x9C: 0x0153, 0x9E: 0x017E, 0x9F: 0x0178,
}


# Bulk consumption of runs of characters that a state merely appends (pure optimisation for large
# documents: the per-character rules below are unchanged and decide every other character).
_PLAIN_DATA = re.compile("[^&<\\0]+")
_PLAIN_COMMENT = re.compile("[^<\\-\\0]+")
_PLAIN_DQ = re.compile("[^\"&\\0]+")
_PLAIN_SQ = re.compile("[^'&\\0]+")


class Tokens(list):
    errors = ()


def numeric_reference_value(code):
    """Section 13.2.5.80 (numeric character reference end state)."""
    if code == 0 or code > 0x10FFFF or 0xD800 <= code <= 0xDFFF:
        return "\ufffd"
    return chr(_C1.get(code, code))


def tokenize(s, cdata_allowed=False):
    # 13.2.3.5 preprocessing the input stream: newline normalisation
    s = s.replace("\r\n", "\n").replace("\r", "\n")
    n = len(s)
    out = Tokens()
    errors = []
    text = []

    def flush_text():
        if text:
            out.append(("text", "".join(text)))
            del text[:]

    def emit(tok):
        flush_text()
        out.append(tok)

    def err(code):
        errors.append((code, i))

    # current tag token
    tag = None  # [kind, name(list), attrs(list of [name(list), value(list)]), selfclosing]
    comment = None  # list of chars

    def emit_tag():
        kind, name, attrs, sc = tag
        if kind == "start":
            seen = set()
            final = []
            for an, av in attrs:
                an = "".join(an)
                if an in seen:
                    errors.append(("duplicate-attribute", i))
                    continue
                seen.add(an)
                final.append((an, "".join(av)))
            emit(("start", "".join(name), final, sc))
        else:
            if attrs:
                errors.append(("end-tag-with-attributes", i))
            if sc:
                errors.append(("end-tag-with-trailing-solidus", i))
            emit(("end", "".join(name)))

    state = "data"
    ret = "data"  # return state of a character reference
    i = 0
    guard = 0
    limit = 20 * n + 100
    while True:
        guard += 1
        if guard > limit:  # cannot happen for a correct state machine; never loop forever
            raise RuntimeError("html5tok: no progress")
        c = s[i] if i < n else None  # None = EOF
        # every branch either consumes (i += 1) or "reconsumes" (leaves i) with a state change
        if state == "data":
            if c is None:
                break
            m = _PLAIN_DATA.match(s, i)
            if m:
                text.append(m.group())
                i = m.end()
                continue
            i += 1
            if c == "&":
                ret = "data"
                state = "charref"
            elif c == "<":
                state = "tagopen"
            else:
                if c == "\0":
                    err("unexpected-null-character")
                text.append(c)
        elif state == "tagopen":
            if c is None:
                err("eof-before-tag-name")
                text.append("<")
                break
            if c == "!":
                i += 1
                state = "markupdecl"
            elif c == "/":
                i += 1
                state = "endtagopen"
            elif c in ALPHA:
                tag = ["start", [], [], False]
                state = "tagname"
            elif c == "?":
                err("unexpected-question-mark-instead-of-tag-name")
                comment = []
                state = "boguscomment"
            else:
                err("invalid-first-character-of-tag-name")
                text.append("<")
                state = "data"
        elif state == "endtagopen":
            if c is None:
                err("eof-before-tag-name")
                text.append("</")
                break
            if c in ALPHA:
                tag = ["end", [], [], False]
                state = "tagname"
            elif c == ">":
                i += 1
                err("missing-end-tag-name")
                state = "data"
            else:
                err("invalid-first-character-of-tag-name")
                comment = []
                state = "boguscomment"
        elif state == "tagname":
            if c is None:
                err("eof-in-tag")
                break
            i += 1
            if c in WS:
                state = "beforeattrname"
            elif c == "/":
                state = "selfclosing"
            elif c == ">":
                state = "data"
                emit_tag()
            elif c == "\0":
                err("unexpected-null-character")
                tag[1].append("\ufffd")
            else:
                tag[1].append(c.lower() if "A" <= c <= "Z" else c)
        elif state == "beforeattrname":
            if c is None or c in "/>":
                state = "afterattrname"
            elif c in WS:
                i += 1
            elif c == "=":
                i += 1
                err("unexpected-equals-sign-before-attribute-name")
                tag[2].append([["="], []])
                state = "attrname"
            else:
                tag[2].append([[], []])
                state = "attrname"
        elif state == "attrname":
            if c is None or c in WS or c in "/>":
                state = "afterattrname"
            elif c == "=":
                i += 1
                state = "beforeattrvalue"
            else:
                i += 1
                if c == "\0":
                    err("unexpected-null-character")
                    c = "\ufffd"
                elif c in "\"'<":
                    err("unexpected-character-in-attribute-name")
                tag[2][-1][0].append(c.lower() if "A" <= c <= "Z" else c)
        elif state == "afterattrname":
            if c is None:
                err("eof-in-tag")
                break
            if c in WS:
                i += 1
            elif c == "/":
                i += 1
                state = "selfclosing"
            elif c == "=":
                i += 1
                state = "beforeattrvalue"
            elif c == ">":
                i += 1
                state = "data"
                emit_tag()
            else:
                tag[2].append([[], []])
                state = "attrname"
        elif state == "beforeattrvalue":
            if c is not None and c in WS:
                i += 1
            elif c == '"':
                i += 1
                state = "attrvalue-dq"
            elif c == "'":
                i += 1
                state = "attrvalue-sq"
            elif c == ">":
                i += 1
                err("missing-attribute-value")
                state = "data"
                emit_tag()
            else:
                state = "attrvalue-uq"
        elif state in ("attrvalue-dq", "attrvalue-sq"):
            if c is None:
                err("eof-in-tag")
                break
            m = (_PLAIN_DQ if state == "attrvalue-dq" else _PLAIN_SQ).match(s, i)
            if m:
                tag[2][-1][1].append(m.group())
                i = m.end()
                continue
            i += 1
            if c == ('"' if state == "attrvalue-dq" else "'"):
                state = "afterattrvalue"
            elif c == "&":
                ret = state
                state = "charref"
            elif c == "\0":
                err("unexpected-null-character")
                tag[2][-1][1].append("\ufffd")
            else:
                tag[2][-1][1].append(c)
        elif state == "attrvalue-uq":
            if c is None:
                err("eof-in-tag")
                break
            i += 1
            if c in WS:
                state = "beforeattrname"
            elif c == "&":
                ret = state
                state = "charref"
            elif c == ">":
                state = "data"
                emit_tag()
            elif c == "\0":
                err("unexpected-null-character")
                tag[2][-1][1].append("\ufffd")
            else:
                if c in "\"'<=`":
                    err("unexpected-character-in-unquoted-attribute-value")
                tag[2][-1][1].append(c)
        elif state == "afterattrvalue":
            if c is None:
                err("eof-in-tag")
                break
            if c in WS:
                i += 1
                state = "beforeattrname"
            elif c == "/":
                i += 1
                state = "selfclosing"
            elif c == ">":
                i += 1
                state = "data"
                emit_tag()
            else:
                err("missing-whitespace-between-attributes")
                state = "beforeattrname"
        elif state == "selfclosing":
            if c is None:
                err("eof-in-tag")
                break
            if c == ">":
                i += 1
                tag[3] = True
                state = "data"
                emit_tag()
            else:
                err("unexpected-solidus-in-tag")
                state = "beforeattrname"
        elif state == "boguscomment":
            if c is None:
                emit(("comment", "".join(comment)))
                break
            i += 1
            if c == ">":
                state = "data"
                emit(("comment", "".join(comment)))
            elif c == "\0":
                err("unexpected-null-character")
                comment.append("\ufffd")
            else:
                comment.append(c)
        elif state == "markupdecl":
            if s.startswith("--", i):
                i += 2
                comment = []
                state = "commentstart"
            elif s[i:i + 7].lower() == "doctype":
                j = s.find(">", i)
                j = n if j < 0 else j
                emit(("doctype", s[i:j]))
                i = min(n, j + 1)
                state = "data"
            elif s.startswith("[CDATA[", i):
                i += 7
                if cdata_allowed:
                    state = "cdata"
                else:
                    err("cdata-in-html-content")
                    comment = list("[CDATA[")
                    state = "boguscomment"
            else:
                err("incorrectly-opened-comment")
                comment = []
                state = "boguscomment"
        elif state == "commentstart":
            if c == "-":
                i += 1
                state = "commentstartdash"
            elif c == ">":
                i += 1
                err("abrupt-closing-of-empty-comment")
                state = "data"
                emit(("comment", "".join(comment)))
            else:
                state = "comment"
        elif state == "commentstartdash":
            if c is None:
                err("eof-in-comment")
                emit(("comment", "".join(comment)))
                break
            if c == "-":
                i += 1
                state = "commentend"
            elif c == ">":
                i += 1
                err("abrupt-closing-of-empty-comment")
                state = "data"
                emit(("comment", "".join(comment)))
            else:
                comment.append("-")
                state = "comment"
        elif state == "comment":
            if c is None:
                err("eof-in-comment")
                emit(("comment", "".join(comment)))
                break
            m = _PLAIN_COMMENT.match(s, i)
            if m:
                comment.append(m.group())
                i = m.end()
                continue
            i += 1
            if c == "<":
                comment.append(c)
                state = "comment-lt"
            elif c == "-":
                state = "commentenddash"
            elif c == "\0":
                err("unexpected-null-character")
                comment.append("\ufffd")
            else:
                comment.append(c)
        elif state == "comment-lt":
            if c == "!":
                i += 1
                comment.append(c)
                state = "comment-lt-bang"
            elif c == "<":
                i += 1
                comment.append(c)
            else:
                state = "comment"
        elif state == "comment-lt-bang":
            if c == "-":
                i += 1
                state = "comment-lt-bang-dash"
            else:
                state = "comment"
        elif state == "comment-lt-bang-dash":
            if c == "-":
                i += 1
                state = "comment-lt-bang-dash-dash"
            else:
                state = "commentenddash"
        elif state == "comment-lt-bang-dash-dash":
            if c is not None and c != ">":
                err("nested-comment")
            state = "commentend"
        elif state == "commentenddash":
            if c is None:
                err("eof-in-comment")
                emit(("comment", "".join(comment)))
                break
            if c == "-":
                i += 1
                state = "commentend"
            else:
                comment.append("-")
                state = "comment"
        elif state == "commentend":
            if c is None:
                err("eof-in-comment")
                emit(("comment", "".join(comment)))
                break
            if c == ">":
                i += 1
                state = "data"
                emit(("comment", "".join(comment)))
            elif c == "!":
                i += 1
                state = "commentendbang"
            elif c == "-":
                i += 1
                comment.append("-")
            else:
                comment.append("--")
                state = "comment"
        elif state == "commentendbang":
            if c is None:
                err("eof-in-comment")
                emit(("comment", "".join(comment)))
                break
            if c == "-":
                i += 1
                comment.append("--!")
                state = "commentenddash"
            elif c == ">":
                i += 1
                err("incorrectly-closed-comment")
                state = "data"
                emit(("comment", "".join(comment)))
            else:
                comment.append("--!")
                state = "comment"
        elif state == "cdata":
            # CDATA section / bracket / end states folded: ends at the first "]]>"
            j = s.find("]]>", i)
            if j < 0:
                err("eof-in-cdata")
                text.append(s[i:])
                i = n
                break
            text.append(s[i:j])
            i = j + 3
            state = "data"
        elif state == "charref":
            # 13.2.5.72 .. 13.2.5.80; i is just after "&"
            in_attr = ret != "data"
            sink = tag[2][-1][1] if in_attr else text
            if c is not None and c in ALNUM:
                # named character reference: longest match in the table
                match = None
                for ln in range(min(_MAXENT, n - i), 0, -1):
                    cand = s[i:i + ln]
                    if cand in _ENTITIES:
                        match = cand
                        break
                if match is not None:
                    nxt = s[i + len(match)] if i + len(match) < n else None
                    if in_attr and not match.endswith(";") and nxt is not None and (nxt == "=" or nxt in ALNUM):
                        sink.append("&" + match)  # historical reasons: left as text
                    else:
                        if not match.endswith(";"):
                            err("missing-semicolon-after-character-reference")
                        sink.append(_ENTITIES[match])
                    i += len(match)
                    state = ret
                else:
                    sink.append("&")
                    # ambiguous ampersand state
                    while i < n and s[i] in ALNUM:
                        sink.append(s[i])
                        i += 1
                    if i < n and s[i] == ";":
                        err("unknown-named-character-reference")
                    state = ret
            elif c == "#":
                j = i + 1
                hexa = j < n and s[j] in "xX"
                if hexa:
                    j += 1
                k = j
                digits = HEX if hexa else DIGITS
                while k < n and s[k] in digits:
                    k += 1
                if k == j:
                    err("absence-of-digits-in-numeric-character-reference")
                    sink.append("&" + s[i:j])
                    i = j
                    state = ret
                else:
                    code = int(s[j:k], 16 if hexa else 10)
                    if k < n and s[k] == ";":
                        k += 1
                    else:
                        err("missing-semicolon-after-character-reference")
                    sink.append(numeric_reference_value(code))
                    i = k
                    state = ret
            else:
                sink.append("&")
                state = ret
        else:  # pragma: no cover
            raise RuntimeError("html5tok: unknown state " + state)
    flush_text()
    out.errors = errors
    return out


VECTORS = [
    # (input, cdata_allowed, expected tokens) — written by hand from the spec text
    ("a&amp;b&lt;c&gt;d&quot;e&#39;f", False, [("text", "a&b<c>d\"e'f")]),
    ("<p>x</p>", False, [("start", "p", [], False), ("text", "x"), ("end", "p")]),
    ("<BR />", False, [("start", "br", [], True)]),
    ("<a href=\"x&amp;y\" b='c\"d' e=f g>", False,
     [("start", "a", [("href", "x&y"), ("b", "c\"d"), ("e", "f"), ("g", "")], False)]),
    ("<a x=\"1\" X=\"2\">", False, [("start", "a", [("x", "1")], False)]),
    ("<a x=\"1\"y=\"2\">", False, [("start", "a", [("x", "1"), ("y", "2")], False)]),
    ("<a b=\"&lt;i&gt;&amp;amp;&lt;/i&gt;\">", False, [("start", "a", [("b", "<i>&amp;</i>")], False)]),
    ("a < b", False, [("text", "a < b")]),
    ("a<>b</>c", False, [("text", "a<>bc")]),
    ("<!--x-->y", False, [("comment", "x"), ("text", "y")]),
    ("<!---->", False, [("comment", "")]),
    ("<!-->y-->", False, [("comment", ""), ("text", "y-->")]),
    ("<!--->y-->", False, [("comment", ""), ("text", "y-->")]),
    ("<!--x--!>y-->", False, [("comment", "x"), ("text", "y-->")]),
    ("<!--x--!y-->", False, [("comment", "x--!y")]),
    ("<!--x--y-->", False, [("comment", "x--y")]),
    ("<!--x--->", False, [("comment", "x-")]),
    ("<!--x- -->", False, [("comment", "x- ")]),
    ("<!--x--&gt;y-->", False, [("comment", "x--&gt;y")]),
    ("<!--a<!--b-->c", False, [("comment", "a<!--b"), ("text", "c")]),
    ("<!--a<!-->c", False, [("comment", "a<!"), ("text", "c")]),
    ("<!--a<!- -->c", False, [("comment", "a<!- "), ("text", "c")]),
    ("<!--a<<!x-->", False, [("comment", "a<<!x")]),
    ("<!--a\0b-->", False, [("comment", "a\ufffdb")]),
    ("<!--unterminated", False, [("comment", "unterminated")]),
    ("<!x>y", False, [("comment", "x"), ("text", "y")]),
    ("<?pi?>y", False, [("comment", "?pi?"), ("text", "y")]),
    ("</ x>y", False, [("comment", " x"), ("text", "y")]),
    ("<![CDATA[a>b]]>c", False, [("comment", "[CDATA[a"), ("text", "b]]>c")]),
    ("<![CDATA[a><b>]]>c", True, [("text", "a><b>c")]),
    ("<!DOCTYPE html><p>", False, [("doctype", "DOCTYPE html"), ("start", "p", [], False)]),
    ("x\r\ny\rz", False, [("text", "x\ny\nz")]),
    ("a\0b", False, [("text", "a\0b")]),
    ("<a b=\"x\0y\">", False, [("start", "a", [("b", "x\ufffdy")], False)]),
    ("&#60;&#x3C;&#X3c;&#0;&#128;&#xD800;&#x110000;&#65", False, [("text", "<<<\ufffd\u20ac\ufffd\ufffdA")]),
    ("&#;&#x;&", False, [("text", "&#;&#x;&")]),
    ("&ampx &amp=1 &notit; &notin; &bogus; &lt", False, [("text", "&x &=1 \xacit; \u2209 &bogus; <")]),
    ("<a b=\"&ampx &amp=1 &amp;=1 &lt\">", False, [("start", "a", [("b", "&ampx &amp=1 &=1 <")], False)]),
    ("<a b=x&gt;y>z", False, [("start", "a", [("b", "x>y")], False), ("text", "z")]),
    ("<a b=\"x>y\">z", False, [("start", "a", [("b", "x>y")], False), ("text", "z")]),
    ("<a/b>", False, [("start", "a", [("b", "")], False)]),
    ("<a =b>", False, [("start", "a", [("=b", "")], False)]),
    ("<a b=>c", False, [("start", "a", [("b", "")], False), ("text", "c")]),
    ("</p a=b>", False, [("end", "p")]),
    ("<p", False, []),
    ("x<", False, [("text", "x<")]),
    ("x</", False, [("text", "x</")]),
    ("<a b=\"unterminated", False, []),
    ("<x-y.z:w_1>", False, [("start", "x-y.z:w_1", [], False)]),
]


def selftest():
    for src, cd, want in VECTORS:
        got = list(tokenize(src, cdata_allowed=cd))
        if got != want:
            raise AssertionError("html5tok vector %r: expected %r, got %r" % (src, want, got))
    return len(VECTORS)


if __name__ == "__main__":
    print("html5tok selftest:", selftest(), "vectors ok")
