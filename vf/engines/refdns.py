"""Independent DNS wire-format reader (trusted base; written from RFC 1035 section 4.1, RFC 2782,
RFC 2915, RFC 1183, RFC 3596, RFC 2874, RFC 4255, RFC 2845, RFC 6891; no twisted imports).

    parse_message(data, partial=False) -> dict
        header fields, `questions` [(name, qtype, qclass)], `sections` {"an","ns","ar"} of RR dicts:
        {"name": labels, "type", "class", "ttl", "rdlength", "rdata": raw bytes, "typed": tuple or None,
         "names": [NameTrace...]  (owner first, then RDATA names in field order), "start", "end"}.
        With partial=True a message that ends early yields what was complete (`complete` False).
    read_name(data, off) -> NameTrace (labels, next offset, pointer hops) with a pointer-loop guard.

Names are tuples of label bytes.  Errors are WireError with a stable .reason code.
"""
import struct

TYPES = {1: "A", 2: "NS", 3: "MD", 4: "MF", 5: "CNAME", 6: "SOA", 7: "MB", 8: "MG", 9: "MR", 10: "NULL",
         11: "WKS", 12: "PTR", 13: "HINFO", 14: "MINFO", 15: "MX", 16: "TXT", 17: "RP", 18: "AFSDB",
         28: "AAAA", 33: "SRV", 35: "NAPTR", 38: "A6", 39: "DNAME", 41: "OPT", 44: "SSHFP", 99: "SPF", 250: "TSIG"}
SINGLE_NAME = {"NS", "MD", "MF", "CNAME", "MB", "MG", "MR", "PTR", "DNAME"}
MAX_NAME_WIRE = 255


class WireError(Exception):
    def __init__(self, reason, offset=None, where=None):
        Exception.__init__(self, "%s at offset %r %s" % (reason, offset, where or ""))
        self.reason = reason
        self.offset = offset
        self.where = where  # (section, index, type) when raised inside a record


class NameTrace:
    __slots__ = ("labels", "start", "next", "hops", "wire_len")

    def __init__(self, labels, start, nxt, hops, wire_len):
        self.labels = labels
        self.start = start
        self.next = nxt
        self.hops = hops  # [(pointer location, target offset, number of labels read before the hop)]
        self.wire_len = wire_len  # length of the uncompressed name on the wire (labels + length octets + root)

    def __repr__(self):
        return "NameTrace(%r, start=%d, hops=%r)" % (self.labels, self.start, self.hops)


def _need(data, off, n, what):
    if off < 0 or off + n > len(data):
        raise WireError("truncated-" + what, off)


def read_name(data, off, strict_len=True, follow=True):
    """RFC 1035 4.1.4: a sequence of labels ending in a zero octet, or in a pointer.
    follow=False stops at the first pointer (labels read so far, one hop recorded): framing only."""
    start = off
    labels = []
    hops = []
    seen = set()
    nxt = None
    wire_len = 1
    while True:
        _need(data, off, 1, "name")
        l = data[off]
        if l == 0:
            if nxt is None:
                nxt = off + 1
            break
        kind = l & 0xC0
        if kind == 0xC0:
            _need(data, off, 2, "pointer")
            target = ((l & 0x3F) << 8) | data[off + 1]
            if nxt is None:
                nxt = off + 2
            if target in seen:  # iterative; at most 2^14 distinct targets, so this always terminates
                raise WireError("pointer-loop", off)
            seen.add(target)
            hops.append((off, target, len(labels)))
            if not follow:
                break
            off = target
            continue
        if kind != 0:
            raise WireError("reserved-label-type", off)
        _need(data, off + 1, l, "label")
        labels.append(bytes(data[off + 1:off + 1 + l]))
        wire_len += 1 + l
        if strict_len and wire_len > MAX_NAME_WIRE:
            raise WireError("name-longer-than-255", start)
        off += 1 + l
    return NameTrace(tuple(labels), start, nxt, hops, wire_len)


def _charstr(data, off, end):
    if off + 1 > end:
        raise WireError("truncated-character-string", off)
    n = data[off]
    if off + 1 + n > end:
        raise WireError("character-string-overruns-rdata", off)
    return bytes(data[off + 1:off + 1 + n]), off + 1 + n


def _rdname(data, off, end, names, strict_len, follow=True):
    if off >= end:
        raise WireError("truncated-rdata-name", off)
    t = read_name(data, off, strict_len, follow)
    if t.next > end:
        raise WireError("name-overruns-rdata", off)
    names.append(t)
    return t.labels, t.next


def parse_rdata(data, rtype, off, rdlength, names, strict_len=True, follow=True):
    """Typed RDATA; must consume exactly rdlength octets.  Returns a tuple whose first item is the
    mnemonic, or None for types this reader does not know."""
    kind = TYPES.get(rtype)
    end = off + rdlength
    p = off
    if kind is None:
        return None
    if kind == "A":
        if rdlength != 4:
            raise WireError("rdata-length-mismatch", off)
        return ("A", bytes(data[p:end]))
    if kind == "AAAA":
        if rdlength != 16:
            raise WireError("rdata-length-mismatch", off)
        return ("AAAA", bytes(data[p:end]))
    if kind in SINGLE_NAME:
        n, p = _rdname(data, p, end, names, strict_len, follow)
        out = (kind, n)
    elif kind == "SOA":
        m, p = _rdname(data, p, end, names, strict_len, follow)
        r, p = _rdname(data, p, end, names, strict_len, follow)
        if p + 20 > end:
            raise WireError("rdata-length-mismatch", p)
        out = ("SOA", m, r) + struct.unpack("!IIIII", data[p:p + 20])
        p += 20
    elif kind == "NULL":
        return ("NULL", bytes(data[p:end]))
    elif kind == "WKS":
        if rdlength < 5:
            raise WireError("rdata-length-mismatch", off)
        return ("WKS", bytes(data[p:p + 4]), data[p + 4], bytes(data[p + 5:end]))
    elif kind == "HINFO":
        c, p = _charstr(data, p, end)
        o, p = _charstr(data, p, end)
        out = ("HINFO", c, o)
    elif kind in ("MINFO", "RP"):
        a, p = _rdname(data, p, end, names, strict_len, follow)
        b, p = _rdname(data, p, end, names, strict_len, follow)
        out = (kind, a, b)
    elif kind in ("MX", "AFSDB"):
        if p + 2 > end:
            raise WireError("rdata-length-mismatch", p)
        (v,) = struct.unpack("!H", data[p:p + 2])
        n, p = _rdname(data, p + 2, end, names, strict_len, follow)
        out = (kind, v, n)
    elif kind in ("TXT", "SPF"):
        strs = []
        while p < end:
            s, p = _charstr(data, p, end)
            strs.append(s)
        out = (kind, tuple(strs))
    elif kind == "SRV":
        if p + 6 > end:
            raise WireError("rdata-length-mismatch", p)
        pr, w, port = struct.unpack("!HHH", data[p:p + 6])
        n, p = _rdname(data, p + 6, end, names, strict_len, follow)
        out = ("SRV", pr, w, port, n)
    elif kind == "NAPTR":
        if p + 4 > end:
            raise WireError("rdata-length-mismatch", p)
        order, pref = struct.unpack("!HH", data[p:p + 4])
        fl, p = _charstr(data, p + 4, end)
        sv, p = _charstr(data, p, end)
        rx, p = _charstr(data, p, end)
        n, p = _rdname(data, p, end, names, strict_len, follow)
        out = ("NAPTR", order, pref, fl, sv, rx, n)
    elif kind == "A6":
        # RFC 2874 3.1: prefix length (1 octet, 0..128); address suffix of exactly enough octets to
        # hold 128-prefixlen bits (0..16); prefix name iff prefix length != 0.
        if p + 1 > end:
            raise WireError("rdata-length-mismatch", p)
        plen = data[p]
        if plen > 128:
            raise WireError("a6-prefix-length-over-128", p)
        nsuf = (128 - plen + 7) // 8
        if p + 1 + nsuf > end:
            raise WireError("rdata-length-mismatch", p)
        suffix = bytes(data[p + 1:p + 1 + nsuf])
        p += 1 + nsuf
        n = ()
        if plen:
            n, p = _rdname(data, p, end, names, strict_len, follow)
        out = ("A6", plen, suffix, n)
    elif kind == "OPT":
        opts = []
        while p < end:
            if p + 4 > end:
                raise WireError("truncated-edns-option", p)
            code, ln = struct.unpack("!HH", data[p:p + 4])
            if p + 4 + ln > end:
                raise WireError("edns-option-overruns-rdata", p)
            opts.append((code, bytes(data[p + 4:p + 4 + ln])))
            p += 4 + ln
        out = ("OPT", tuple(opts))
    elif kind == "SSHFP":
        if rdlength < 2:
            raise WireError("rdata-length-mismatch", off)
        return ("SSHFP", data[p], data[p + 1], bytes(data[p + 2:end]))
    elif kind == "TSIG":
        n, p = _rdname(data, p, end, names, strict_len, follow)
        if p + 10 > end:
            raise WireError("rdata-length-mismatch", p)
        hi, lo, fudge, maclen = struct.unpack("!HIHH", data[p:p + 10])
        p += 10
        if p + maclen + 6 > end:
            raise WireError("rdata-length-mismatch", p)
        mac = bytes(data[p:p + maclen])
        p += maclen
        oid, err, olen = struct.unpack("!HHH", data[p:p + 6])
        p += 6
        if p + olen > end:
            raise WireError("rdata-length-mismatch", p)
        other = bytes(data[p:p + olen])
        p += olen
        out = ("TSIG", n, (hi << 32) | lo, fudge, mac, oid, err, other)
    else:  # pragma: no cover
        return None
    if p != end:
        raise WireError("rdata-length-mismatch", p)
    return out


def parse_message(data, partial=False, strict_len=True, follow=True):
    data = bytes(data)
    if len(data) < 12:
        raise WireError("truncated-header", 0)
    mid, b3, b4, qd, an, ns, ar = struct.unpack("!HBBHHHH", data[:12])
    msg = {"id": mid, "qr": b3 >> 7, "opcode": (b3 >> 3) & 15, "aa": (b3 >> 2) & 1, "tc": (b3 >> 1) & 1, "rd": b3 & 1,
           "ra": b4 >> 7, "z": (b4 >> 6) & 1, "ad": (b4 >> 5) & 1, "cd": (b4 >> 4) & 1, "rcode": b4 & 15,
           "counts": (qd, an, ns, ar), "questions": [], "sections": {"an": [], "ns": [], "ar": []}, "complete": True,
           "question_names": []}
    off = 12
    try:
        for i in range(qd):
            try:
                t = read_name(data, off, strict_len, follow)
                _need(data, t.next, 4, "question")
            except WireError as e:
                e.where = ("qd", i, None)
                raise
            qt, qc = struct.unpack("!HH", data[t.next:t.next + 4])
            msg["questions"].append((t.labels, qt, qc))
            msg["question_names"].append(t)
            off = t.next + 4
        for sec, cnt in (("an", an), ("ns", ns), ("ar", ar)):
            for i in range(cnt):
                rtype = None
                try:
                    t = read_name(data, off, strict_len, follow)
                    _need(data, t.next, 10, "rr-header")
                    rtype, rclass, ttl, rdlen = struct.unpack("!HHIH", data[t.next:t.next + 10])
                    rstart = t.next + 10
                    _need(data, rstart, rdlen, "rdata")
                    names = [t]
                    typed = parse_rdata(data, rtype, rstart, rdlen, names, strict_len, follow)
                except WireError as e:
                    e.where = (sec, i, rtype)
                    raise
                msg["sections"][sec].append({"name": t.labels, "type": rtype, "class": rclass, "ttl": ttl, "rdlength": rdlen,
                                             "rdata": data[rstart:rstart + rdlen], "typed": typed, "names": names,
                                             "start": off, "end": rstart + rdlen})
                off = rstart + rdlen
    except WireError as e:
        if partial and e.reason.startswith("truncated-"):
            msg["complete"] = False
            msg["stopped"] = (e.reason, e.offset, e.where)
        else:
            raise
    msg["end"] = off
    return msg


# ---- selftest on hand-assembled vectors ----------------------------------------------------------------

def _hx(s):
    return bytes.fromhex(s.replace(" ", "").replace("\n", ""))


def _expect(reason, fn, *a, **kw):
    try:
        fn(*a, **kw)
    except WireError as e:
        assert e.reason == reason, (e.reason, reason)
        return e
    raise AssertionError("expected WireError(%s)" % reason)


def selftest():
    # response: www.example.com A? -> CNAME web.example.com ; web.example.com A 10.0.0.1 ; OPT with one option
    m = _hx("""1234 8180 0001 0002 0000 0001
               03777777 076578616d706c65 03636f6d 00 0001 0001
               c00c 0005 0001 00000e10 0006 03776562 c010
               c02d 0001 0001 0000003c 0004 0a000001
               00 0029 1000 00008000 0008 000a 0004 deadbeef""")
    p = parse_message(m)
    assert (p["id"], p["qr"], p["opcode"], p["aa"], p["tc"], p["rd"], p["ra"], p["ad"], p["cd"], p["rcode"]) == (0x1234, 1, 0, 0, 0, 1, 1, 0, 0, 0)
    assert p["counts"] == (1, 2, 0, 1) and p["complete"] and p["end"] == len(m)
    assert p["questions"] == [((b"www", b"example", b"com"), 1, 1)]
    a1, a2 = p["sections"]["an"]
    assert a1["name"] == (b"www", b"example", b"com") and a1["type"] == 5 and a1["ttl"] == 3600 and a1["rdlength"] == 6
    assert a1["typed"] == ("CNAME", (b"web", b"example", b"com"))
    assert a1["names"][0].hops == [(33, 12, 0)] and a1["names"][1].hops == [(49, 16, 1)] and a1["names"][1].start == 45
    assert a2["name"] == (b"web", b"example", b"com") and a2["typed"] == ("A", b"\x0a\x00\x00\x01") and a2["ttl"] == 60
    assert a2["names"][0].hops == [(51, 45, 0), (49, 16, 1)]
    (o,) = p["sections"]["ar"]
    assert o["name"] == () and o["type"] == 41 and o["class"] == 4096 and o["ttl"] == 0x8000 and o["typed"] == ("OPT", ((10, b"\xde\xad\xbe\xef"),))
    # truncated at every offset: strict raises, partial returns a prefix
    for cut in range(12, len(m)):
        q = parse_message(m[:cut], partial=True)
        assert not q["complete"] or cut == len(m)
        assert len(q["sections"]["an"]) == (0 if cut < 51 else 1 if cut < 67 else 2), cut
        _expect(q["stopped"][0], parse_message, m[:cut])
    _expect("truncated-header", parse_message, m[:11])
    # pointer loops: self pointer, mutual pointers, loop after labels
    hdr = _hx("0000 0000 0001 0000 0000 0000")
    _expect("pointer-loop", parse_message, hdr + _hx("c00c 0001 0001"))
    _expect("pointer-loop", parse_message, hdr + _hx("c00e c00c 0001 0001"))
    _expect("pointer-loop", parse_message, hdr + _hx("0161 c00c 0001 0001"))
    _expect("reserved-label-type", parse_message, hdr + _hx("4061 00 0001 0001"))
    _expect("reserved-label-type", parse_message, hdr + _hx("8061 00 0001 0001"))
    _expect("truncated-label", parse_message, hdr + _hx("0561 62"))
    # long acyclic pointer-to-pointer chains are legal (8000 hops, forward; then the same ending in a cycle)
    chain = b"".join(struct.pack("!H", 0xC000 | (14 + 2 * i)) for i in range(8000))
    t = read_name(hdr + chain + b"\x03end\x00", 12)
    assert t.labels == (b"end",) and len(t.hops) == 8000 and t.next == 14
    _expect("pointer-loop", read_name, hdr + chain + b"\xc0\x0c", 12)
    # forward pointer is readable (no loop)
    p = parse_message(hdr + _hx("c012 0001 0001 0161 00"))
    assert p["questions"] == [((b"a",), 1, 1)] and p["end"] == 18
    # 63-octet label and a 255-octet name are legal, 256 is not
    lab = b"\x3f" + b"x" * 63
    nm = lab * 3 + b"\x3d" + b"y" * 61 + b"\x00"
    assert len(nm) == 255
    p = parse_message(hdr + nm + _hx("0001 0001"))
    assert p["question_names"][0].wire_len == 255 and [len(l) for l in p["questions"][0][0]] == [63, 63, 63, 61]
    nm2 = lab * 3 + b"\x3e" + b"y" * 62 + b"\x00"
    _expect("name-longer-than-255", parse_message, hdr + nm2 + _hx("0001 0001"))
    assert parse_message(hdr + nm2 + _hx("0001 0001"), strict_len=False)["question_names"][0].wire_len == 256
    # typed RDATA vectors (each embedded as the only answer of a message with owner "a")
    def one(rtype, rdata, rclass=1, ttl=5):
        body = _hx("0000 8000 0000 0001 0000 0000") + b"\x01a\x00" + struct.pack("!HHIH", rtype, rclass, ttl, len(rdata)) + rdata
        return parse_message(body)["sections"]["an"][0]
    ex = b"\x07example\x03org\x00"
    E = (b"example", b"org")
    assert one(15, _hx("000a") + b"\x04mail" + ex)["typed"] == ("MX", 10, (b"mail",) + E)
    assert one(6, b"\x02ns" + ex + b"\x05admin" + ex + _hx("78563412 00000e10 00000258 00093a80 ffffffff"))["typed"] == \
        ("SOA", (b"ns",) + E, (b"admin",) + E, 0x78563412, 3600, 600, 604800, 0xFFFFFFFF)
    assert one(16, b"\x05hello\x00\x03abc")["typed"] == ("TXT", (b"hello", b"", b"abc"))
    assert one(16, b"")["typed"] == ("TXT", ())
    assert one(99, b"\x01x")["typed"] == ("SPF", (b"x",))
    assert one(33, _hx("0001 0002 01bb") + ex)["typed"] == ("SRV", 1, 2, 443, E)
    assert one(35, _hx("0064 000a") + b"\x01u\x07E2U+sip\x04!^.*" + b"\x00")["typed"] == ("NAPTR", 100, 10, b"u", b"E2U+sip", b"!^.*", ())
    assert one(13, b"\x03x86\x05linux")["typed"] == ("HINFO", b"x86", b"linux")
    assert one(17, ex + b"\x00")["typed"] == ("RP", E, ())
    assert one(14, ex + ex)["typed"] == ("MINFO", E, E)
    assert one(18, _hx("0001") + ex)["typed"] == ("AFSDB", 1, E)
    assert one(28, bytes(range(16)))["typed"] == ("AAAA", bytes(range(16)))
    assert one(11, _hx("7f000001 06 0001 02"))["typed"] == ("WKS", b"\x7f\x00\x00\x01", 6, b"\x00\x01\x02")
    assert one(44, _hx("01 02 aabbcc"))["typed"] == ("SSHFP", 1, 2, b"\xaa\xbb\xcc")
    assert one(10, b"\x00\xff")["typed"] == ("NULL", b"\x00\xff")
    assert one(2, ex)["typed"] == ("NS", E) and one(12, ex)["typed"] == ("PTR", E) and one(39, ex)["typed"] == ("DNAME", E)
    assert one(65280, b"\x01\x02")["typed"] is None and one(65280, b"\x01\x02")["rdata"] == b"\x01\x02"
    assert one(250, b"\x04hmac\x00" + _hx("0001 00000002 012c 0003 a1a2a3 1234 0010 0002 b1b2"), rclass=255, ttl=0)["typed"] == \
        ("TSIG", (b"hmac",), (1 << 32) | 2, 300, b"\xa1\xa2\xa3", 0x1234, 16, b"\xb1\xb2")
    # A6 (RFC 2874 3.1 examples of field sizes): prefix length 0 -> 16 suffix octets, no name;
    # 64 -> 8 octets + name; 1 -> 16 octets + name; 127 -> 1 octet + name; 128 -> no suffix + name
    assert one(38, b"\x00" + bytes(range(16)))["typed"] == ("A6", 0, bytes(range(16)), ())
    assert one(38, b"\x40" + bytes(range(8)) + ex)["typed"] == ("A6", 64, bytes(range(8)), E)
    assert one(38, b"\x01" + b"\x7f" + bytes(15) + ex)["typed"] == ("A6", 1, b"\x7f" + bytes(15), E)
    assert one(38, b"\x7f\x01" + ex)["typed"] == ("A6", 127, b"\x01", E)
    assert one(38, b"\x80" + ex)["typed"] == ("A6", 128, b"", E)
    try:  # one suffix octet short: misaligned, some WireError (which one depends on the bytes)
        one(38, b"\x01" + bytes(15) + ex)
        raise AssertionError("short A6 suffix accepted")
    except WireError:
        pass
    _expect("rdata-length-mismatch", one, 1, b"\x01\x02\x03")
    _expect("rdata-length-mismatch", one, 15, _hx("000a") + ex + b"\x00")
    _expect("character-string-overruns-rdata", one, 16, b"\x05abc")
    _expect("truncated-label", one, 2, b"\x07exam")
    _expect("name-overruns-rdata", parse_message, _hx("0000 8000 0000 0001 0000 0000") + b"\x01a\x00" + _hx("0002 0001 00000005 0003") + ex)
    _expect("truncated-rdata", parse_message, _hx("0000 8000 0000 0001 0000 0000") + b"\x01a\x00" + _hx("0001 0001 00000005 0004 0a00"))
    # compressed name inside RDATA pointing into the question
    q = _hx("0000 8000 0001 0001 0000 0000") + ex + _hx("000f 0001") + _hx("c00c 000f 0001 00000001 0004 0005 c00c")
    r = parse_message(q)["sections"]["an"][0]
    sh = parse_message(q, follow=False)["sections"]["an"][0]
    assert sh["typed"] == ("MX", 5, ()) and sh["names"][0].hops == [(29, 12, 0)] and sh["names"][1].hops == [(43, 12, 0)] and sh["end"] == 45
    assert r["typed"] == ("MX", 5, E) and r["names"][1].hops == [(43, 12, 0)] and r["names"][1].start == 43


if __name__ == "__main__":
    selftest()
    print("refdns selftest ok")
