"""E5 — yield injection for real-thread stress.

`sys.monitoring` LINE events are enabled with `set_local_events` ONLY on the code objects under
test (and the functions nested inside them); at each such statement boundary the callback yields
the GIL (`time.sleep(0)`, sometimes a real micro-sleep) with a seeded probability.  Nothing is
injected anywhere else, so the monitors' own critical sections are never perturbed.

    inj = YieldInjector(code_objects_of(ReactorBase.callFromThread, ...), p=0.2, seed=7)
    inj.start(); ...; inj.stop(); inj.lines, inj.yields

The injected schedule is *not* reproducible (the OS decides who runs after a yield); the seed only
fixes where yields are attempted by each thread's n-th statement.  Verdicts never depend on it.
"""
import random
import sys
import threading
import time
import types

TOOL_ID = 3  # sys.monitoring ids 0..5; 3 is unassigned by convention (0 debugger, 1 coverage, 2 profiler, 5 optimizer)


def code_objects_of(*funcs):
    """Code objects of the given functions/methods, plus every function nested inside them."""
    out = []
    seen = set()

    def add(code):
        if id(code) in seen:
            return
        seen.add(id(code))
        out.append(code)
        for c in code.co_consts:
            if isinstance(c, types.CodeType):
                add(c)

    for f in funcs:
        f = getattr(f, "__func__", f)
        f = getattr(f, "__wrapped__", f)
        if isinstance(f, property):
            f = f.fget
        code = getattr(f, "__code__", None)
        if code is None:
            raise TypeError("no code object for %r" % (f,))
        add(code)
    return out


class YieldInjector:
    def __init__(self, codes, p=0.2, seed=0, micro_sleep_p=0.05, micro_sleep_s=0.0002):
        self.codes = list(codes)
        self.p = p
        self.micro_p = micro_sleep_p
        self.micro_s = micro_sleep_s
        self._rng = random.Random(seed)
        self.lines = 0  # approximate (unsynchronised increments): evidence only
        self.yields = 0
        self._on = False
        self._names = {}

    def _line(self, code, lineno):
        self.lines += 1
        r = self._rng.random()  # one C call: atomic under the GIL
        if r < self.p:
            self.yields += 1
            if r < self.p * self.micro_p:
                time.sleep(self.micro_s)
            else:
                time.sleep(0)
        return None

    def start(self):
        mon = sys.monitoring
        if mon.get_tool(TOOL_ID) is None:
            mon.use_tool_id(TOOL_ID, "vf-yield-injection")
        mon.register_callback(TOOL_ID, mon.events.LINE, self._line)
        for c in self.codes:
            mon.set_local_events(TOOL_ID, c, mon.events.LINE)
        self._on = True
        return self

    def stop(self):
        if not self._on:
            return
        mon = sys.monitoring
        for c in self.codes:
            mon.set_local_events(TOOL_ID, c, 0)
        mon.register_callback(TOOL_ID, mon.events.LINE, None)
        try:
            mon.free_tool_id(TOOL_ID)
        except Exception:
            pass
        self._on = False

    def __enter__(self):
        return self.start()

    def __exit__(self, *a):
        self.stop()
        return False


class LockedLog:
    """Append-only event log shared by threads; every access is under one lock."""

    def __init__(self):
        self._lock = threading.Lock()
        self._items = []

    def add(self, item):
        with self._lock:
            self._items.append(item)

    def snapshot(self):
        with self._lock:
            return list(self._items)

    def __len__(self):
        with self._lock:
            return len(self._items)
