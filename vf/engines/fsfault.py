"""E3 — crash-point and partial-write injection on a REAL scratch directory.

    fs = FaultFS(root, seams=[(module, "attr", "open"), ...], on_call=None)
    with fs:                      # count pass: nothing armed, every mutating call gets an index
        operation()
    for k, plen in crash_points(fs.log, lo, hi):
        restore the directory
        fs = FaultFS(root, ...); fs.arm(k, plen)
        with fs:
            try: operation()
            except Crash: pass
        assert fs.crashed            # then "reboot": fresh objects on the left-over directory

Containment (independent of the code under test, which may be a deliberately broken mutant running
as root): every intercepted MUTATING call whose absolute, symlink-resolved path is not under `root`
is REFUSED — it is never executed, it raises `OutsideScratch` (a PermissionError) and is recorded in
`fs.escapes` and the module-level `ESCAPES` list, which the property modules turn into a violation.
Read-only opens outside the root pass through.  Harness code therefore runs ALL target code (also
crash-free phases) inside an unarmed FaultFS ("guard").  `containment_selftest()` proves the refusal.

What is intercepted and counted as crash points (paths under `root`):
`os.rename/replace/remove/unlink/mkdir/rmdir/truncate/symlink/link/chmod/open`,
`builtins.open` / `io.open` (hence `os.fdopen` of a descriptor obtained through `os.open`), extra module-level seams given by the caller (modules that bound
`open`/`rename` at import time, e.g. `dirdbm._open`), and the `write/writelines/flush/close/
truncate` of every file object opened for writing through those.

Model of the disk.  Every *mutating* call is one crash point (read-only opens are not).  A file
opened with buffering keeps written bytes in the proxy ("user-space buffer"); they reach the real
file only at `flush()`/`close()` (or an implicit flush before read/seek/tell/truncate, as
BufferedRandom does).  Unbuffered files (`buffering=0`) write through.  Crashing at call k with
partial length L means: call k is NOT executed, except that for every open file the first
min(L, len(pending)) buffered bytes reach the disk, where for the file whose `write(data)` is call
k `pending` includes `data` (a torn write).  After the crash every intercepted call — including
those made by `except BaseException:` cleanup handlers and `with` exits — raises `Crash` without
touching the disk, which is what distinguishes a process crash from an exception.

Besides the crash there are two one-shot fault modes for a process that SURVIVES (`arm(k, partial,
raises=...)`): "interrupt" (KeyboardInterrupt delivered at call k) and "oserror" (the call fails
with OSError); the call is not executed (a torn write keeps its prefix), later calls work normally.

Not modelled: power loss (reordering of unsynced data/metadata), directory-entry durability.
"""
import builtins
import io
import os

_real_open = builtins.open


class Crash(BaseException):
    """The simulated process died.  BaseException so `except Exception` cannot swallow it."""


class OutsideScratch(PermissionError):
    """A mutating filesystem call aimed outside the scratch root was refused (not executed)."""


ESCAPES = []  # (call name, paths) of every refused call, process-wide; property modules report them


def partial_lengths(n):
    if n <= 16:
        return list(range(n + 1))
    return sorted({0, 1, n // 2, n - 1, n})


def crash_points(log, lo=0, hi=None):
    """All (call index, partial length) pairs for the calls lo <= k < hi of a count-pass log."""
    pts = []
    for k, kind, detail, pend in log:
        if k < lo or (hi is not None and k >= hi):
            continue
        if pend:
            pts.extend((k, n) for n in partial_lengths(pend))
        else:
            pts.append((k, 0))
    return pts


class _File:
    """Proxy of a file opened for writing under the root."""

    def __init__(self, fs, real, path, buffered):
        self._fs = fs
        self._real = real
        self._path = path
        self._buffered = buffered
        self._pending = []
        self._closed = False
        fs._open_files.append(self)

    # ---- helpers ---------------------------------------------------------------------------
    def _pend(self, extra=None):
        parts = self._pending if extra is None else self._pending + [extra]
        if not parts:
            return b""
        return parts[0][:0].join(parts)

    def _commit(self, data):
        if data:
            self._real.write(data)
        self._real.flush()

    def _sync(self):
        if self._pending:
            p = self._pend()
            self._pending = []
            self._commit(p)

    def _die(self, extra, plen):
        """Crash: a prefix of the buffered bytes reaches the disk, the descriptor goes away."""
        if self._closed:
            return
        p = self._pend(extra)
        self._pending = []
        try:
            self._commit(p[:plen])
        finally:
            self._closed = True
            self._real.close()

    # ---- mutating calls (crash points) -----------------------------------------------------------
    def write(self, data):
        if self._closed and not self._fs.crashed:
            raise ValueError("write to closed file")
        if isinstance(data, memoryview):
            data = data.tobytes()
        self._fs._tick("write", (self._path, len(data)), self, data)
        if self._buffered:
            self._pending.append(data)
        else:
            self._commit(data)
        return len(data)

    def writelines(self, lines):
        for line in lines:
            self.write(line)

    def flush(self):
        if self._closed and not self._fs.crashed:
            raise ValueError("flush of closed file")
        self._fs._tick("flush", (self._path,), self)
        self._sync()

    def close(self):
        if self._closed and not self._fs.crashed:
            return
        self._fs._tick("close", (self._path,), self)
        self._sync()
        self._closed = True
        self._real.close()
        self._fs._open_files.remove(self)

    def truncate(self, size=None):
        self._fs._tick("ftruncate", (self._path, size), self)
        self._sync()
        return self._real.truncate(size)

    # ---- everything else: implicit flush, then the real file ----------------------------------
    def _passthrough(name):
        def method(self, *a, **kw):
            if self._fs.crashed:
                raise Crash()
            self._sync()
            return getattr(self._real, name)(*a, **kw)

        method.__name__ = name
        return method

    read = _passthrough("read")
    readline = _passthrough("readline")
    readlines = _passthrough("readlines")
    readinto = _passthrough("readinto")
    seek = _passthrough("seek")
    tell = _passthrough("tell")
    del _passthrough

    def fileno(self):
        return self._real.fileno()

    def __iter__(self):
        self._sync()
        return iter(self._real)

    @property
    def closed(self):
        return self._closed

    @property
    def name(self):
        return self._real.name

    @property
    def mode(self):
        return self._real.mode

    def writable(self):
        return True

    def readable(self):
        return self._real.readable()

    def seekable(self):
        return self._real.seekable()

    def __enter__(self):
        return self

    def __exit__(self, *exc):
        self.close()
        return False


class FaultFS:
    OS_PATH_CALLS = {  # name -> indices of the path arguments that decide interception
        "rename": (0, 1), "replace": (0, 1), "remove": (0,), "unlink": (0,), "mkdir": (0,),
        "rmdir": (0,), "truncate": (0,), "symlink": (1,), "link": (0, 1), "chmod": (0,),
        "chown": (0,), "lchown": (0,), "utime": (0,), "mkfifo": (0,), "mknod": (0,),
    }

    def __init__(self, root, seams=(), on_call=None):
        self.root = os.path.realpath(root)
        self.seams = list(seams)  # (module, attribute, kind) with kind "open" or an os call name
        self.on_call = on_call
        self.n = 0
        self.log = []  # (k, kind, detail, max pending bytes incl. this write)
        self.crash_at = None
        self.partial = 0
        self.crashed = False
        self.crash_call = None
        self._open_files = []
        self._raw_fds = set()
        self._fd_path = {}  # descriptor from an intercepted os.open -> its path (for fdopen'ed files)
        self._saved = []
        self._active = False
        self.escapes = []
        self.raises = None
        self.fired = False

    def arm(self, k, partial=0, raises=None):
        """Fault at call index k.  raises=None: the process crashes (sticky, see module docstring).
        raises=<callable returning an exception>: ONE-SHOT fault in a SURVIVING process — call k is
        not executed (a write first accepts its `partial`-byte prefix into the file/buffer, a torn
        write) and raises that exception, e.g. KeyboardInterrupt ("interrupt" mode) or
        OSError(EIO) ("oserror" mode); afterwards everything works normally.  `fs.fired` tells
        whether the fault was delivered."""
        self.crash_at = k
        self.partial = partial or 0
        self.raises = raises
        return self

    # ---- path filter -------------------------------------------------------------------------
    def _under(self, p):
        return p == self.root or p.startswith(self.root + os.sep)

    def _inside(self, p, dir_fd=None):
        if isinstance(p, int):
            return p in self._raw_fds
        try:
            p = os.fsdecode(p)
        except TypeError:
            return False
        if dir_fd is not None and not os.path.isabs(p):
            try:
                p = os.path.join(os.readlink("/proc/self/fd/%d" % dir_fd), p)
            except OSError:
                return False
        p = os.path.abspath(p)
        # the directory is resolved through symlinks; a final component that is itself a symlink
        # must not lead outside either (open-for-write / chmod / truncate follow it)
        lex = os.path.join(os.path.realpath(os.path.dirname(p)), os.path.basename(p))
        if not self._under(lex):
            return False
        return not os.path.islink(lex) or self._under(os.path.realpath(lex))

    def _refuse(self, name, paths):
        rec = (name, tuple(p if isinstance(p, int) else os.fsdecode(p) for p in paths))
        self.escapes.append(rec)
        ESCAPES.append(rec)
        raise OutsideScratch(13, "vf.fsfault: %s%r is outside the scratch root %s: refused, not executed" % (name, rec[1], self.root))

    # ---- the crash point -----------------------------------------------------------------------
    def _tick(self, kind, detail, f=None, data=None):
        if self.crashed:
            raise Crash()
        k = self.n
        self.n += 1
        pend = 0
        for g in self._open_files:
            n = sum(map(len, g._pending)) + (len(data) if (g is f and data is not None) else 0)
            pend = max(pend, n)
        self.log.append((k, kind, detail, pend))
        if self.on_call is not None:
            self.on_call(k, kind, detail, data)
        if self.crash_at == k and self.raises is not None:
            self.crash_at = None
            self.fired = True
            self.crash_call = (k, kind, detail, self.partial)
            if f is not None and data is not None and self.partial:
                if f._buffered:
                    f._pending.append(data[:self.partial])
                else:
                    f._commit(data[:self.partial])
            raise self.raises()
        if self.crash_at == k:
            self.crashed = True
            self.fired = True
            self.crash_call = (k, kind, detail, self.partial)
            for g in list(self._open_files):
                g._die(data if g is f else None, self.partial)
            self._open_files = []
            self._close_raw()
            raise Crash()

    def _close_raw(self):
        for fd in list(self._raw_fds):
            try:
                os.close(fd)
            except OSError:
                pass
        self._raw_fds.clear()

    # ---- wrappers ------------------------------------------------------------------------------
    def _wrap_os(self, name, real):
        idx = self.OS_PATH_CALLS[name]

        def call(*a, **kw):
            paths = [a[i] for i in idx if i < len(a)]
            for key in ("path", "src", "dst"):
                if key in kw:
                    paths.append(kw[key])
            dfd = {0: kw.get("dir_fd", kw.get("src_dir_fd")), 1: kw.get("dst_dir_fd", kw.get("dir_fd"))}
            if not paths or not all(self._inside(p, dfd.get(n)) for n, p in enumerate(paths)):
                self._refuse(name, paths)
            self._tick(name, tuple(os.fsdecode(p) if not isinstance(p, int) else p for p in paths))
            return real(*a, **kw)

        call.__name__ = name
        return call

    def _wrap_open(self, real):
        def fopen(file, mode="r", buffering=-1, *a, **kw):
            if isinstance(file, int):
                if file in self._raw_fds:
                    return self._fdopen(real, file, mode, buffering, *a, **kw)
                return real(file, mode, buffering, *a, **kw)
            writing = any(c in mode for c in "wax+")
            if not self._inside(file):
                if writing:
                    self._refuse("open:" + mode, [file])
                return real(file, mode, buffering, *a, **kw)
            if not writing:
                if self.crashed:
                    raise Crash()
                return real(file, mode, buffering, *a, **kw)
            path = os.fsdecode(file)
            self._tick("open", (path, mode))
            r = real(file, mode, buffering, *a, **kw)
            return _File(self, r, path, buffered=buffering != 0)

        return fopen

    def _fdopen(self, real, fd, mode="r", buffering=-1, *a, **kw):
        self._tick("fdopen", (fd, mode))
        r = real(fd, mode, buffering, *a, **kw)
        self._raw_fds.discard(fd)
        return _File(self, r, self._fd_path.pop(fd, "fd:%d" % fd), buffered=buffering != 0)

    def _wrap_os_open(self, real):
        def os_open(path, flags, *a, **kw):
            writing = flags & (os.O_WRONLY | os.O_RDWR | os.O_CREAT | os.O_TRUNC | os.O_APPEND)
            if not self._inside(path, kw.get("dir_fd")):
                if writing:
                    self._refuse("os.open:%#o" % flags, [path])
                return real(path, flags, *a, **kw)
            if not writing:
                if self.crashed:
                    raise Crash()
                return real(path, flags, *a, **kw)
            self._tick("os.open", (os.fsdecode(path), flags))
            fd = real(path, flags, *a, **kw)
            self._raw_fds.add(fd)
            self._fd_path[fd] = os.fsdecode(path)
            return fd

        return os_open

    # ---- context manager -----------------------------------------------------------------------
    def _patch(self, obj, attr, new):
        self._saved.append((obj, attr, getattr(obj, attr)))
        setattr(obj, attr, new)

    def __enter__(self):
        assert not self._active and getattr(FaultFS, "_current", None) is None, "FaultFS contexts do not nest"
        FaultFS._current = self
        self._active = True
        try:
            for name in self.OS_PATH_CALLS:
                if hasattr(os, name):
                    self._patch(os, name, self._wrap_os(name, getattr(os, name)))
            self._patch(os, "open", self._wrap_os_open(os.open))
            # os.fdopen() is `io.open(fd, ...)`: covered by the io.open patch below
            wopen = self._wrap_open(_real_open)
            self._patch(builtins, "open", wopen)
            self._patch(io, "open", wopen)
            for mod, attr, kind in self.seams:
                if kind == "open":
                    self._patch(mod, attr, wopen)
                else:
                    self._patch(mod, attr, self._wrap_os(kind, getattr(mod, attr)))
        except BaseException:
            self.__exit__(None, None, None)
            raise
        return self

    def __exit__(self, *exc):
        while self._saved:
            obj, attr, old = self._saved.pop()
            setattr(obj, attr, old)
        FaultFS._current = None
        self._active = False
        # normal process exit flushes buffers; after a crash the descriptors are already gone
        for g in list(self._open_files):
            try:
                if not self.crashed:
                    g._sync()
                g._closed = True
                g._real.close()
            except (OSError, ValueError):
                pass
        self._open_files = []
        self._close_raw()
        return False


# ---- directory snapshots (pristine copy / left-over state) -----------------------------------------
def snapshot_tree(path):
    """{relative name: bytes | None (directory)} of everything below `path` (no symlinks expected)."""
    snap = {}
    for base, dirs, files in os.walk(path):
        rel = os.path.relpath(base, path)
        for d in dirs:
            snap[os.path.normpath(os.path.join(rel, d))] = None
        for f in files:
            with _real_open(os.path.join(base, f), "rb") as fh:
                snap[os.path.normpath(os.path.join(rel, f))] = fh.read()
    return snap


def restore_tree(path, snap):
    """Make `path` contain exactly `snap` (created if missing)."""
    import shutil

    if os.path.lexists(path):
        shutil.rmtree(path)
    os.mkdir(path)
    for rel in sorted(snap, key=lambda r: (r.count(os.sep), r)):
        p = os.path.join(path, rel)
        if snap[rel] is None:
            os.mkdir(p)
        else:
            with _real_open(p, "wb") as fh:
                fh.write(snap[rel])


def containment_selftest():
    """Deliberately aim mutating calls at a file OUTSIDE the root from inside a FaultFS: every one
    must be refused without being executed.  -> (ok, number of refusals)"""
    import shutil
    import tempfile

    top = os.path.realpath(tempfile.mkdtemp(prefix="vf_selftest_"))
    try:
        root = os.path.join(top, "root")
        outside = os.path.join(top, "outside")
        os.mkdir(root)
        os.mkdir(outside)
        victim = os.path.join(outside, "victim")
        with _real_open(victim, "wb") as f:
            f.write(b"intact")
        os.symlink(victim, os.path.join(root, "link-to-victim"))
        os.symlink(outside, os.path.join(root, "link-to-dir"))
        mark = len(ESCAPES)
        attempts = [
            lambda: os.remove(victim), lambda: os.unlink(victim), lambda: os.rename(victim, victim + ".x"),
            lambda: os.rename(os.path.join(root, "a"), victim), lambda: os.replace(victim, os.path.join(root, "stolen")),
            lambda: os.truncate(victim, 0), lambda: os.chmod(victim, 0), lambda: os.rmdir(outside),
            lambda: os.mkdir(os.path.join(outside, "newdir")), lambda: open(victim, "wb"), lambda: open(victim, "ab"),
            lambda: open(victim, "r+b"), lambda: io.open(victim, "w"), lambda: os.open(victim, os.O_WRONLY | os.O_TRUNC),
            lambda: open(os.path.join(root, "link-to-victim"), "wb"), lambda: os.truncate(os.path.join(root, "link-to-victim"), 0),
            lambda: os.remove(os.path.join(root, "link-to-dir", "victim")), lambda: open(os.path.join(root, "..", "outside", "victim"), "wb"),
            lambda: shutil.rmtree(outside), lambda: os.makedirs(os.path.join(outside, "p", "q")),
        ]
        refused = 0
        fs = FaultFS(root)
        with fs:
            for att in attempts:
                try:
                    att()
                except OutsideScratch:
                    refused += 1
                except OSError:
                    pass
            with open(victim, "rb") as f:   # reading outside is allowed
                ok_read = f.read() == b"intact"
            open(os.path.join(root, "inside"), "wb").close()  # writing inside is allowed
        del ESCAPES[mark:]
        with _real_open(victim, "rb") as f:
            intact = f.read() == b"intact"
        ok = (intact and ok_read and refused == len(attempts) and sorted(os.listdir(outside)) == ["victim"]
              and os.path.exists(os.path.join(root, "inside")) and (os.stat(victim).st_mode & 0o777) != 0)
        return ok, refused
    finally:
        shutil.rmtree(top, ignore_errors=True)


def report_escapes(ctx, witness=None):
    """Turn refused out-of-scratch calls (since the last report) into a violation of the run."""
    if ESCAPES:
        ctx.violation("filesystem-call-outside-scratch", "the code under test aimed a mutating filesystem call outside the scratch directory (refused, not executed)",
                      {"refused_calls": list(ESCAPES[:10]), "case": witness})
        del ESCAPES[:]


def selftest_or_inconclusive(ctx):
    ok, refused = containment_selftest()
    ctx.count("containment_selftest_refusals", refused)
    if not ok:
        ctx.inconclusive("fsfault containment self-test failed: refusing to run target code")
    return ok
