"""E4 — filesystem event recorder on top of sys.addaudithook (py3.11 compatible).

Audit hooks cannot be removed, so exactly one hook is installed per process (on first start())
and it is gated by a flag: outside start()/stop() it returns at once.

    from vf.engines import fsaudit
    fsaudit.start()                    # or start(events={"open", "os.listdir"})
    ... code under observation ...
    events = fsaudit.stop()            # [(event_name, (path, ...)), ...] in call order

Paths are the *path arguments* of the audited call exactly as the caller passed them (str or
bytes, PathLike converted with os.fspath); integer file descriptors and non-path arguments
(open()'s mode and flags, dir_fd values) are dropped.  Use norm() to get absolute normalised
text paths for containment checks.  Nesting start() is refused (one recorder at a time).
"""
import os
import sys

# event -> indexes of the arguments that are paths (None: every str/bytes/PathLike argument)
PATH_ARGS = {
    "open": (0,),
    "os.listdir": (0,),
    "os.scandir": (0,),
    "os.mkdir": (0,),
    "os.rmdir": (0,),
    "os.remove": (0,),
    "os.rename": (0, 1),
    "os.link": (0, 1),
    "os.symlink": (0, 1),
    "os.chmod": (0,),
    "os.chown": (0,),
    "os.truncate": (0,),
    "os.utime": (0,),
    "os.chdir": (0,),
    "os.walk": (0,),
    "os.fwalk": (0,),
    "os.mkfifo": (0,),
    "os.mknod": (0,),
    "glob.glob": (0,),
    "shutil.rmtree": (0,),
    "shutil.copyfile": (0, 1),
    "shutil.copytree": (0, 1),
    "shutil.move": (0, 1),
    "tempfile.mkstemp": (0,),
    "tempfile.mkdtemp": (0,),
}
READ_EVENTS = frozenset(["open", "os.listdir", "os.scandir", "os.walk", "os.fwalk", "glob.glob"])
DEFAULT_EVENTS = frozenset(PATH_ARGS)

_installed = False
_active = False
_wanted = DEFAULT_EVENTS
_log = []


def _hook(event, args):
    if not _active:
        return
    if event not in _wanted:
        return
    idx = PATH_ARGS.get(event)
    paths = []
    try:
        cand = args if idx is None else [args[i] for i in idx if i < len(args)]
        for a in cand:
            if isinstance(a, (str, bytes)):
                paths.append(a)
            elif hasattr(a, "__fspath__"):
                paths.append(os.fspath(a))
    except Exception:  # never let the recorder disturb the audited call
        return
    _log.append((event, tuple(paths)))


def start(events=None):
    """Begin recording.  `events`: iterable of audit event names (default: DEFAULT_EVENTS)."""
    global _installed, _active, _wanted, _log
    if _active:
        raise RuntimeError("fsaudit recorder already active")
    _wanted = frozenset(events) if events is not None else DEFAULT_EVENTS
    _log = []
    if not _installed:
        sys.addaudithook(_hook)
        _installed = True
    _active = True


def stop():
    """Stop recording and return the list of (event, paths) recorded since start()."""
    global _active, _log
    _active = False
    out, _log = _log, []
    return out


def active():
    return _active


def norm(p):
    """Absolute, normalised *text* form of a recorded path (bytes decoded with the fs encoding)."""
    if isinstance(p, bytes):
        p = os.fsdecode(p)
    return os.path.normpath(os.path.abspath(p))


def inside(path, root):
    """Is the (normalised) path `root` itself or lexically below it?"""
    path, root = norm(path), norm(root)
    return path == root or path.startswith(root.rstrip(os.sep) + os.sep)


def selftest():
    import shutil
    import tempfile

    d = tempfile.mkdtemp()
    try:
        f = os.path.join(d, "f")
        with open(f, "w") as fh:  # not recorded: recorder inactive
            fh.write("x")
        start()
        try:
            open(f).close()
            os.listdir(d)
            with os.scandir(os.fsencode(d)) as it:
                list(it)
            os.rename(f, f + "2")
            open(os.open(f + "2", os.O_RDONLY)).close()  # fd-based open: no path recorded
        finally:
            ev = stop()
        open(f + "2").close()  # after stop(): not recorded
        names = [e for e, _ in ev]
        assert names.count("open") >= 2 and "os.listdir" in names and "os.scandir" in names and "os.rename" in names, ev
        assert ("open", (f,)) in ev and ("os.rename", (f, f + "2")) in ev, ev
        assert ("os.scandir", (os.fsencode(d),)) in ev
        assert all(inside(p, d) for _, ps in ev for p in ps), ev
        assert not inside(d + "X/secret", d) and inside(d, d) and not inside(os.path.dirname(d), d)
        start(events={"os.listdir"})
        open(f + "2").close()
        os.listdir(d)
        assert stop() == [("os.listdir", (d,))]
        try:
            start()
            start()
        except RuntimeError:
            pass
        else:
            raise AssertionError("nested start accepted")
        finally:
            stop()
    finally:
        shutil.rmtree(d)
    return True


if __name__ == "__main__":
    selftest()
    print("fsaudit selftest ok")
