"""E1 — stateless bounded-exhaustive exploration of histories over REAL objects.

A world class provides::

    w = make_world()            # fresh real objects + fresh model/monitor
    w.actions() -> [label,...]  # enabled actions now (hashable, JSON-able labels)
    w.apply(label)              # perform it on the real objects; run the invariant/monitor;
                                # report through ctx.violation(...) (do not raise for violations)
    w.state()   -> hashable     # abstract state for pruning (real observable state + model state)
    w.finish()                  # optional: quiescence check at every explored node's end

The explorer re-executes the history prefix from scratch for every extension (no object copying),
so worlds must be deterministic functions of the history.
"""


class Stats:
    def __init__(self):
        self.states = 0
        self.transitions = 0
        self.pruned = 0
        self.leaves = 0
        self.maxdepth = 0


def dfs(ctx, make_world, max_depth, shard_depth=2, prune=True, on_node=None, budget_nodes=None):
    """Explore every history of length <= max_depth.  Returns Stats.

    Sharding: histories are partitioned by their first `shard_depth` actions (hash), so shards are
    independent; state pruning is per shard (sound: a pruned state was fully explored to at
    least the same remaining depth in this shard).
    """
    st = Stats()
    seen = {}
    truncated = [False]

    def build(history):
        w = make_world()
        for a in history:
            w.apply(a)
        return w

    def rec(history):
        if budget_nodes is not None and st.states >= budget_nodes:
            truncated[0] = True
            return
        w = build(history)
        depth = len(history)
        st.states += 1
        st.maxdepth = max(st.maxdepth, depth)
        if on_node is not None:
            on_node(w, history)
        if hasattr(w, "finish"):
            w.finish()
        if depth >= max_depth:
            st.leaves += 1
            return
        if prune:
            s = w.state()
            rem = max_depth - depth
            if seen.get(s, -1) >= rem:
                st.pruned += 1
                return
            seen[s] = rem
        acts = list(w.actions())
        if not acts:
            st.leaves += 1
            return
        for a in acts:
            h2 = history + [a]
            if len(h2) == shard_depth and not ctx.owns(repr(h2)):
                continue
            st.transitions += 1
            rec(h2)

    rec([])
    ctx.count("explore_states", st.states)
    ctx.count("explore_transitions", st.transitions)
    ctx.count("explore_pruned", st.pruned)
    ctx.maxi("explore_depth", st.maxdepth)
    if truncated[0]:
        ctx.exhaustive = False
        ctx.count("explore_truncated")
    elif ctx.exhaustive is None:
        ctx.exhaustive = True
    return st


def random_walks(ctx, make_world, n_walks, length, rng_key="walk", on_end=None):
    """Random long histories over the same world interface."""
    for i in n_walks:
        rng = ctx.case_rng(rng_key, i)
        w = make_world()
        hist = []
        for _ in range(length):
            acts = list(w.actions())
            if not acts:
                break
            a = rng.choice(acts)
            hist.append(a)
            w.apply(a)
        if hasattr(w, "finish"):
            w.finish()
        if on_end is not None:
            on_end(w, hist)
        ctx.evaluated()
