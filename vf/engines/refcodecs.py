"""Reference codecs written from the RFC text (trusted base; no twisted imports).

* RFC 3501 section 5.1.3 "modified UTF-7" mailbox names: `mutf7_encode`, `mutf7_decode` (strict:
  every deviation from the RFC form raises `FormError` with a reason code).
* RFC 3461 section 4 `xtext`: `xtext_encode`, `xtext_decode` (strict).

selftest() checks both against hand-written vectors (RFC examples included).
"""
import base64

_B64 = "ABCDEFGHIJKLMNOPQRSTUVWXYZabcdefghijklmnopqrstuvwxyz0123456789+,"
_B64_VAL = {ord(c): i for i, c in enumerate(_B64)}


class FormError(ValueError):
    """Input is not in the RFC form; .reason is a short stable code, .pos the byte offset."""

    def __init__(self, reason, pos=None):
        ValueError.__init__(self, "%s at %r" % (reason, pos))
        self.reason = reason
        self.pos = pos


# ---- RFC 3501 5.1.3 -----------------------------------------------------------------------------

def _b64_units(text):
    raw = text.encode("utf-16-be")
    return base64.b64encode(raw).rstrip(b"=").replace(b"/", b",")


def mutf7_encode(s):
    """Canonical RFC 3501 encoding of str `s` (no lone surrogates)."""
    out = bytearray()
    run = []
    for ch in s:
        o = ord(ch)
        if 0x20 <= o <= 0x7E:
            if run:
                out += b"&" + _b64_units("".join(run)) + b"-"
                run = []
            out += b"&-" if ch == "&" else bytes((o,))
        else:
            run.append(ch)
    if run:
        out += b"&" + _b64_units("".join(run)) + b"-"
    return bytes(out)


def _decode_shift(data, start, end):
    """Decode the modified-BASE64 section data[start:end] (between '&' and '-')."""
    n = end - start
    acc = 0
    for i in range(start, end):
        v = _B64_VAL.get(data[i])
        if v is None:
            raise FormError("byte-not-in-modified-base64-alphabet", i)
        acc = (acc << 6) | v
    total = 6 * n
    units = total // 16
    rem = total - 16 * units
    if units == 0:
        raise FormError("base64-section-without-a-character", start)
    if rem >= 6:
        raise FormError("superfluous-base64-character", end - 1)
    if acc & ((1 << rem) - 1):
        raise FormError("nonzero-padding-bits", end - 1)
    acc >>= rem
    words = [(acc >> (16 * (units - 1 - k))) & 0xFFFF for k in range(units)]
    chars = []
    k = 0
    while k < len(words):
        w = words[k]
        if 0xD800 <= w <= 0xDBFF:
            if k + 1 >= len(words) or not 0xDC00 <= words[k + 1] <= 0xDFFF:
                raise FormError("unpaired-high-surrogate", start)
            chars.append(chr(0x10000 + ((w - 0xD800) << 10) + (words[k + 1] - 0xDC00)))
            k += 2
            continue
        if 0xDC00 <= w <= 0xDFFF:
            raise FormError("unpaired-low-surrogate", start)
        if 0x20 <= w <= 0x7E and w != 0x26:
            raise FormError("printable-ascii-inside-base64", start)
        chars.append(chr(w))
        k += 1
    return "".join(chars)


def mutf7_decode(data):
    """Strict RFC 3501 decoder: returns str or raises FormError."""
    data = bytes(data)
    out = []
    i = 0
    n = len(data)
    after_shift = False  # previous token was a BASE64 section ("&...-")
    while i < n:
        c = data[i]
        if not 0x20 <= c <= 0x7E:
            raise FormError("byte-outside-printable-ascii", i)
        if c != 0x26:
            out.append(chr(c))
            i += 1
            after_shift = False
            continue
        j = data.find(b"-", i + 1)
        if j == -1:
            raise FormError("unterminated-shift", i)
        if j == i + 1:
            out.append("&")
            i = j + 1
            after_shift = False
            continue
        if after_shift:
            raise FormError("null-shift", i)
        for k in range(i + 1, j):
            if not 0x20 <= data[k] <= 0x7E:
                raise FormError("byte-outside-printable-ascii", k)
        out.append(_decode_shift(data, i + 1, j))
        i = j + 1
        after_shift = True
    return "".join(out)


# ---- RFC 3461 section 4 ---------------------------------------------------------------------------
# xtext = *( xchar / hexchar );  xchar = %d33-42 / %d44-60 / %d62-126;  hexchar = "+" 2(%x30-39 / %x41-46)

def xtext_encode(b):
    out = bytearray()
    for o in bytes(b):
        if 33 <= o <= 126 and o not in (0x2B, 0x3D):
            out.append(o)
        else:
            out += b"+%02X" % o
    return bytes(out)


_UHEX = b"0123456789ABCDEF"


def xtext_decode(data):
    data = bytes(data)
    out = bytearray()
    i = 0
    n = len(data)
    while i < n:
        c = data[i]
        if c == 0x2B:
            if i + 3 > n:
                raise FormError("truncated-hexchar", i)
            h, l = data[i + 1], data[i + 2]
            if h not in _UHEX or l not in _UHEX:
                raise FormError("hexchar-not-two-uppercase-hex-digits", i)
            out.append(_UHEX.index(h) * 16 + _UHEX.index(l))
            i += 3
            continue
        if c == 0x3D:
            raise FormError("bare-equals", i)
        if not 33 <= c <= 126:
            raise FormError("byte-outside-xchar-range", i)
        out.append(c)
        i += 1
    return bytes(out)


# ---- selftest ---------------------------------------------------------------------------------------

def _raises(fn, arg, reason):
    try:
        fn(arg)
    except FormError as e:
        assert e.reason == reason, (arg, e.reason, reason)
        return
    raise AssertionError("no FormError(%s) for %r" % (reason, arg))


def selftest():
    vec = [
        ("", b""),
        ("INBOX", b"INBOX"),
        ("&", b"&-"),
        ("a&b&&", b"a&-b&-&-"),
        ("~peter/mail/台北/日本語", b"~peter/mail/&U,BTFw-/&ZeVnLIqe-"),  # RFC 3501 5.1.3
        ("Entwürfe", b"Entw&APw-rfe"),
        ("☺!", b"&Jjo-!"),
        ("\n", b"&AAo-"),
        ("\t\r\n", b"&AAkADQAK-"),
        ("\x00", b"&AAA-"),
        ("\x7f", b"&AH8-"),
        ("\U0001f600", b"&2D3eAA-"),
        ("é&é", b"&AOk-&-&AOk-"),
        ("é\né", b"&AOkACgDp-"),
        ("+-,/\\~", b"+-,/\\~"),
    ]
    for s, b in vec:
        assert mutf7_encode(s) == b, (s, mutf7_encode(s), b)
        assert mutf7_decode(b) == s, (b, mutf7_decode(b), s)
    _raises(mutf7_decode, b"a\nb", "byte-outside-printable-ascii")
    _raises(mutf7_decode, b"\xc3\xa9", "byte-outside-printable-ascii")
    _raises(mutf7_decode, b"&AOk", "unterminated-shift")
    _raises(mutf7_decode, b"&AO/-", "byte-not-in-modified-base64-alphabet")
    _raises(mutf7_decode, b"&AOk=-", "byte-not-in-modified-base64-alphabet")
    _raises(mutf7_decode, b"&AOl-", "nonzero-padding-bits")
    _raises(mutf7_decode, b"&AOkA-", "superfluous-base64-character")
    _raises(mutf7_decode, b"&AA-", "base64-section-without-a-character")
    _raises(mutf7_decode, b"&AGE-", "printable-ascii-inside-base64")
    _raises(mutf7_decode, b"&AOk-&AOk-", "null-shift")
    _raises(mutf7_decode, b"&2D0-", "unpaired-high-surrogate")
    _raises(mutf7_decode, b"&3gA-", "unpaired-low-surrogate")
    _raises(mutf7_decode, b"&AOk\n+AOk-", "byte-outside-printable-ascii")
    assert mutf7_decode(b"&ACY-") == "&"  # '&' cannot represent itself, so BASE64 is not forbidden
    # exhaustive BMP + sampled astral round trip of the reference with itself
    for cp in list(range(0, 0xD800)) + list(range(0xE000, 0x10000)) + list(range(0x10000, 0x110000, 257)):
        s = "x" + chr(cp) + "&" + chr(cp)
        assert mutf7_decode(mutf7_encode(s)) == s, cp

    xv = [
        (b"", b""),
        (b"abc", b"abc"),
        (b"a+b", b"a+2Bb"),
        (b"a=b", b"a+3Db"),
        (b" ", b"+20"),
        (b"\x00\xff\x7f", b"+00+FF+7F"),
        (b"!~", b"!~"),
        (b"a+41", b"a+2B41"),
        (b"user@example.com", b"user@example.com"),
    ]
    for raw, enc in xv:
        assert xtext_encode(raw) == enc, (raw, xtext_encode(raw))
        assert xtext_decode(enc) == raw, (enc, xtext_decode(enc))
    _raises(xtext_decode, b"a=b", "bare-equals")
    _raises(xtext_decode, b"a b", "byte-outside-xchar-range")
    _raises(xtext_decode, b"+2b", "hexchar-not-two-uppercase-hex-digits")
    _raises(xtext_decode, b"+2", "truncated-hexchar")
    _raises(xtext_decode, b"+", "truncated-hexchar")
    _raises(xtext_decode, b"\x80", "byte-outside-xchar-range")
    for o in range(256):
        assert xtext_decode(xtext_encode(bytes((o, 0x41, o)))) == bytes((o, 0x41, o))


if __name__ == "__main__":
    selftest()
    print("refcodecs selftest ok")
