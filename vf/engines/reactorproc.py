"""E6 — run a scenario against a REAL reactor in its own subprocess.

    out = run_scenario("epoll", "vf.props.c15", {"conns": [...]}, timeout=120)
    outs = run_scenarios([("select", mod, inp), ("poll", mod, inp)], timeout=120, max_parallel=4)

`module_or_script` is an importable module name (or a path ending in ".py") that defines

    def scenario(reactor, inp: dict) -> dict      # JSON in, JSON out

The child (`python -X dev -X faulthandler -m vf.engines.reactorproc <reactor> <target>`) installs the
requested reactor class *before* anything imports `twisted.internet.reactor`, reads the JSON input
from stdin, calls `scenario(reactor, inp)` (which runs and stops the reactor itself) and writes the
JSON result to a private copy of stdout (prints of the scenario go to stderr).  The environment
(PYTHONPATH set by ./check, VERIF_REPO) is inherited from the parent; the interpreter is
`sys.executable`.

The returned dict always has a `"_proc"` entry::

    {"status": "ok" | "timeout" | "crash" | "unavailable", "reactor": name, "reactor_class": ...,
     "rc": returncode, "wall_s": ..., "stderr_tail": "...", "twisted_file": ...}

Anything but "ok" means the monitor did not get a complete observation: callers must turn it into
`ctx.inconclusive`, never into held or violated (`fold_status` does that).
"""
import importlib
import json
import os
import subprocess
import sys
import time

REACTORS = ("select", "poll", "epoll", "asyncio")

_MODULES = {
    "select": ("twisted.internet.selectreactor", "SelectReactor"),
    "poll": ("twisted.internet.pollreactor", "PollReactor"),
    "epoll": ("twisted.internet.epollreactor", "EPollReactor"),
    "asyncio": ("twisted.internet.asyncioreactor", "AsyncioSelectorReactor"),
}


def run_scenario(reactor_name, module_or_script, json_input, timeout=120, dev=True):
    """Run one scenario; never raises for child trouble (see `_proc.status`)."""
    cmd = [sys.executable]
    if dev:
        cmd += ["-X", "dev"]
    cmd += ["-X", "faulthandler", "-m", "vf.engines.reactorproc", reactor_name, module_or_script, str(int(timeout))]
    t0 = time.time()
    proc = {"status": "ok", "reactor": reactor_name, "rc": None, "stderr_tail": ""}
    out = {}
    try:
        p = subprocess.run(cmd, input=json.dumps(json_input).encode(), stdout=subprocess.PIPE,
                           stderr=subprocess.PIPE, timeout=timeout, env=dict(os.environ))
        proc["rc"] = p.returncode
        proc["stderr_tail"] = p.stderr[-3000:].decode("utf-8", "replace")
        if p.returncode == 3:
            proc["status"] = "unavailable"
        elif p.returncode != 0:
            proc["status"] = "crash"
        else:
            try:
                out = json.loads(p.stdout.decode())
                if not isinstance(out, dict):
                    out = {"result": out}
            except ValueError:
                proc["status"] = "crash"
                proc["stderr_tail"] += "\n[unparsable stdout: %r]" % p.stdout[-300:]
    except subprocess.TimeoutExpired as e:
        proc["status"] = "timeout"
        proc["stderr_tail"] = (e.stderr or b"")[-3000:].decode("utf-8", "replace")
    proc["wall_s"] = round(time.time() - t0, 2)
    proc.update(out.pop("_child", {}))
    out["_proc"] = proc
    return out


def run_scenarios(jobs, timeout=120, max_parallel=4, dev=True):
    """jobs: [(reactor_name, module_or_script, json_input)] -> outputs in the same order."""
    from concurrent.futures import ThreadPoolExecutor

    if not jobs:
        return []
    with ThreadPoolExecutor(max_workers=max(1, min(max_parallel, len(jobs)))) as ex:
        futs = [ex.submit(run_scenario, r, m, i, timeout, dev) for (r, m, i) in jobs]
        return [f.result() for f in futs]


def fold_status(ctx, out, what=""):
    """True when the child produced a complete observation; otherwise records ctx.inconclusive."""
    pr = out["_proc"]
    if pr["status"] == "ok":
        return True
    ctx.inconclusive("reactor subprocess %s %s: %s (rc=%s) %s" % (
        pr["reactor"], what, pr["status"], pr["rc"], pr["stderr_tail"][-600:].replace("\n", " | ")))
    return False


# ---------------------------------------------------------------------------------------- child
def install(name):
    """Install and return the reactor called `name` (child side)."""
    modname, clsname = _MODULES[name]
    mod = importlib.import_module(modname)
    if name == "asyncio":
        import asyncio

        loop = asyncio.new_event_loop()
        asyncio.set_event_loop(loop)
        mod.install(loop)
    else:
        mod.install()
    from twisted.internet import reactor

    if type(reactor).__name__ != clsname:
        raise RuntimeError("installed %s, wanted %s" % (type(reactor).__name__, clsname))
    return reactor


def _emit(out, reactor=None):
    import twisted

    if not isinstance(out, dict):
        out = {"result": out}
    out["_child"] = {"reactor_class": type(reactor).__name__ if reactor is not None else None, "twisted_file": twisted.__file__}
    data = json.dumps(out).encode()
    fd = sys._vf_reactorproc_out_fd
    while data:
        n = os.write(fd, data)
        data = data[n:]
    os.close(fd)
    sys.stderr.flush()
    os._exit(0)  # do not wait for stray non-daemon threads of a broken run


def emit_and_exit(out, reactor=None):
    """Emergency exit for scenarios (any thread): report `out` now although the reactor cannot be
    stopped (e.g. the code under test lost the stop request).  Never returns."""
    _emit(out, reactor)


def _child_main(argv):
    import faulthandler

    name, target, timeout = argv[0], argv[1], int(argv[2])
    inp = json.loads(sys.stdin.buffer.read().decode())
    sys._vf_reactorproc_out_fd = os.dup(1)
    os.dup2(2, 1)  # scenario prints go to stderr
    sys.stdout = sys.stderr
    # if the parent's watchdog is about to fire, leave the thread stacks in stderr for the report
    faulthandler.dump_traceback_later(max(1, timeout - 3), exit=False)
    try:
        reactor = install(name)
    except Exception as e:  # reactor type not available on this platform
        sys.stderr.write("reactor %s unavailable: %r\n" % (name, e))
        sys.exit(3)
    if target.endswith(".py"):
        import runpy

        fn = runpy.run_path(target)["scenario"]
    else:
        fn = importlib.import_module(target).scenario
    out = fn(reactor, inp)
    faulthandler.cancel_dump_traceback_later()
    _emit(out, reactor)


if __name__ == "__main__":
    _child_main(sys.argv[1:])
