"""Turn anything logged with a failure (log.err, "Unhandled error in Deferred", logger.failure)
during a case into monitor events."""
import gc


class LogCapture:
    def __init__(self):
        self.events = []

    def __call__(self, event):
        self.events.append(event)

    def __enter__(self):
        from twisted.logger import globalLogPublisher

        globalLogPublisher.addObserver(self)
        return self

    def __exit__(self, *a):
        from twisted.logger import globalLogPublisher

        gc.collect()
        try:
            globalLogPublisher.removeObserver(self)
        except ValueError:
            pass
        return False

    def failures(self, ignore=()):
        """[(exception type name, text)] of logged failures whose type is not in `ignore`."""
        out = []
        for e in self.events:
            f = e.get("log_failure")
            if f is None:
                continue
            try:
                if ignore and f.check(*ignore):
                    continue
                out.append((f.type.__name__ if f.type else "?", f.getErrorMessage()[:300]))
            except Exception:
                out.append(("?", repr(f)[:300]))
        return out

    def critical(self):
        out = []
        for e in self.events:
            lvl = e.get("log_level")
            if lvl is not None and getattr(lvl, "name", "") == "critical":
                out.append(e)
        return out
