"""E7 reference reader/validator for the HTTP/1.1 chunked transfer coding (RFC 9112 section 7.1).

Spec-derived, imports nothing from twisted.  Grammar implemented (RFC 9112 7.1, 7.1.1, 7.1.2;
RFC 9110 5.6.2 token, 5.6.4 quoted-string, 5.5 field values)::

    chunked-body   = *chunk last-chunk trailer-section CRLF
    chunk          = chunk-size [ chunk-ext ] CRLF chunk-data CRLF
    chunk-size     = 1*HEXDIG
    last-chunk     = 1*("0") [ chunk-ext ] CRLF
    chunk-ext      = *( BWS ";" BWS chunk-ext-name [ BWS "=" BWS chunk-ext-val ] )
    chunk-ext-name = token
    chunk-ext-val  = token / quoted-string
    trailer-section = *( field-line CRLF )
    field-line     = field-name ":" OWS field-value OWS

`read(data)` walks a byte string once and returns a Result:

* status "complete": last-chunk, trailer section and the final CRLF were read; `body` is the
  concatenated chunk-data, `extra` everything after the final CRLF;
* status "incomplete": the bytes ran out and nothing read so far is malformed;
* status "invalid": the first malformed element, by category (`error`):
    - "size-not-hex"   the size token (line up to the first ";" or the CRLF) is not 1*HEXDIG
    - "size-bws"       1*HEXDIG followed by whitespace before the first ";" (grammatical BWS that a
                       strict size parser refuses; reported separately so that callers can treat it
                       as a don't-care)
    - "ext-ctl"        a chunk extension contains a CTL (other than HTAB) or DEL
    - "ext-malformed"  extension bytes are all allowed but do not match the chunk-ext grammar
    - "data-not-crlf"  chunk-data is not followed by CRLF
    - "trailer-malformed"  a trailer line is not a field-line
  `body` then holds the chunk-data decoded before the error.

Size lines and trailer lines are delimited by the first CRLF (a bare CR or LF is an ordinary,
invalid, byte of the line).  Measurements for limit decisions: `max_size_line` (longest size line
without its CRLF) and `trailer_bytes` (trailer lines including their CRLFs, without the final CRLF).
`notes` records use of optional grammar: "quoted-pair", "bws", "ext", "leading-zeros", "trailers".
"""

HEXDIG = frozenset(b"0123456789abcdefABCDEF")
TCHAR = frozenset(b"!#$%&'*+-.^_`|~0123456789abcdefghijklmnopqrstuvwxyzABCDEFGHIJKLMNOPQRSTUVWXYZ")
WS = frozenset(b" \t")
# bytes that can occur anywhere in a grammatical chunk-ext: HTAB, SP, VCHAR, obs-text
EXT_OK = frozenset([9, 32]) | frozenset(range(0x21, 0x7F)) | frozenset(range(0x80, 0x100))
QDTEXT = frozenset([9, 32, 0x21]) | frozenset(range(0x23, 0x5C)) | frozenset(range(0x5D, 0x7F)) | frozenset(range(0x80, 0x100))
QPAIR = frozenset([9, 32]) | frozenset(range(0x21, 0x7F)) | frozenset(range(0x80, 0x100))
FIELD_OK = EXT_OK


class Result:
    def __init__(self):
        self.status = None
        self.body = b""
        self.extra = b""
        self.chunks = []  # (size, raw extension bytes incl. the leading ";", or b"")
        self.trailers = []
        self.error = None
        self.error_offset = None
        self.max_size_line = 0
        self.trailer_bytes = 0
        self.end = None  # offset just after the final CRLF
        self.notes = set()
        self.ext_backslash = None  # offset of the first extension containing a backslash (quoted-pair or stray)

    def __repr__(self):
        return "<chunked %s body=%d extra=%d err=%s@%s line<=%d trailers=%d %s>" % (
            self.status, len(self.body), len(self.extra), self.error, self.error_offset,
            self.max_size_line, self.trailer_bytes, sorted(self.notes))


def parse_ext(ext, notes=None):
    """ext: the bytes of a size line from the first ';' on.  -> None | 'ext-ctl' | 'ext-malformed'."""
    for c in ext:
        if c not in EXT_OK:
            return "ext-ctl"
    i, n = 0, len(ext)

    def bws(i):
        j = i
        while j < n and ext[j] in WS:
            j += 1
        if j > i and notes is not None:
            notes.add("bws")
        return j

    while i < n:
        i = bws(i)
        if i >= n or ext[i] != 0x3B:
            return "ext-malformed"
        i = bws(i + 1)
        j = i
        while j < n and ext[j] in TCHAR:
            j += 1
        if j == i:
            return "ext-malformed"
        i = j
        k = bws(i)
        if k < n and ext[k] == 0x3D:
            i = bws(k + 1)
            if i < n and ext[i] == 0x22:
                i += 1
                while True:
                    if i >= n:
                        return "ext-malformed"
                    c = ext[i]
                    if c == 0x22:
                        i += 1
                        break
                    if c == 0x5C:
                        if i + 1 >= n or ext[i + 1] not in QPAIR:
                            return "ext-malformed"
                        if notes is not None:
                            notes.add("quoted-pair")
                        i += 2
                    elif c in QDTEXT:
                        i += 1
                    else:
                        return "ext-malformed"
            else:
                j = i
                while j < n and ext[j] in TCHAR:
                    j += 1
                if j == i:
                    return "ext-malformed"
                i = j
        # else: no value; whitespace (if any) must be followed by the next ";" (checked by the loop)
    return None


def valid_field_line(line):
    colon = line.find(b":")
    if colon <= 0:
        return False
    for c in line[:colon]:
        if c not in TCHAR:
            return False
    for c in line[colon + 1:]:
        if c not in FIELD_OK:
            return False
    return True


def read(data):
    data = bytes(data)
    r = Result()
    body = []
    i, n = 0, len(data)

    def fail(cat, off):
        r.status, r.error, r.error_offset = "invalid", cat, off
        r.body = b"".join(body)
        return r

    def incomplete():
        r.status = "incomplete"
        r.body = b"".join(body)
        return r

    while True:
        eol = data.find(b"\r\n", i)
        if eol < 0:
            return incomplete()
        line = data[i:eol]
        r.max_size_line = max(r.max_size_line, len(line))
        semi = line.find(b";")
        token = line if semi < 0 else line[:semi]
        if not token or any(c not in HEXDIG for c in token):
            stripped = token.rstrip(b" \t")
            if semi >= 0 and stripped and all(c in HEXDIG for c in stripped):
                return fail("size-bws", i)
            return fail("size-not-hex", i)
        ext = b"" if semi < 0 else line[semi:]
        if r.ext_backslash is None and b"\\" in ext:
            r.ext_backslash = i + semi
        if ext:
            r.notes.add("ext")
            bad = parse_ext(ext, r.notes)
            if bad:
                return fail(bad, i + semi)
        if len(token) > 1 and token[:1] == b"0":
            r.notes.add("leading-zeros")
        size = int(token, 16)
        r.chunks.append((size, ext))
        i = eol + 2
        if size == 0:
            break
        if n - i < size:
            body.append(data[i:])
            return incomplete()
        body.append(data[i:i + size])
        i += size
        if n - i < 2:
            return incomplete()
        if data[i:i + 2] != b"\r\n":
            return fail("data-not-crlf", i)
        i += 2
    # trailer section
    while True:
        eol = data.find(b"\r\n", i)
        if eol < 0:
            return incomplete()
        line = data[i:eol]
        if not line:
            i = eol + 2
            break
        if not valid_field_line(line):
            return fail("trailer-malformed", i)
        r.notes.add("trailers")
        r.trailers.append(line)
        r.trailer_bytes += len(line) + 2
        i = eol + 2
    r.status = "complete"
    r.body = b"".join(body)
    r.extra = data[i:]
    r.end = i
    return r


def encode(chunks, exts=None, last_ext=b"", trailers=(), sizes=None, last_size=b"0"):
    """Reference encoder: chunks -> chunked-body.  exts[k] is appended verbatim to size line k;
    sizes[k] overrides the hex rendering of chunk k's size (for case/leading-zero variants)."""
    out = []
    for k, c in enumerate(chunks):
        if not c:
            raise ValueError("a chunk of size 0 would be the last-chunk")
        size = sizes[k] if sizes else b"%x" % len(c)
        if int(size, 16) != len(c):
            raise ValueError("size rendering does not match the chunk")
        out += [size, exts[k] if exts else b"", b"\r\n", c, b"\r\n"]
    out += [last_size, last_ext, b"\r\n"]
    for t in trailers:
        out += [t, b"\r\n"]
    out.append(b"\r\n")
    return b"".join(out)


def selftest():
    """Hand-written vectors (RFC examples and one vector per grammar rule / error category)."""
    def chk(cond, what):
        if not cond:
            raise AssertionError("refchunked selftest: " + what)

    # RFC 7230 4.1 / Wikipedia example
    r = read(b"4\r\nWiki\r\n7\r\npedia i\r\nB\r\nn \r\nchunks.\r\n0\r\n\r\n")
    chk(r.status == "complete" and r.body == b"Wikipedia in \r\nchunks." and r.extra == b"", "wiki vector")
    chk([c[0] for c in r.chunks] == [4, 7, 11, 0], "chunk sizes")
    # empty body, extra bytes, trailers
    r = read(b"0\r\n\r\nGET / HTTP/1.1\r\n")
    chk(r.status == "complete" and r.body == b"" and r.extra == b"GET / HTTP/1.1\r\n" and r.end == 5, "empty body + extra")
    r = read(b"3\r\nabc\r\n0\r\nExpires: never\r\nX-A:b\r\n\r\nrest")
    chk(r.status == "complete" and r.body == b"abc" and r.trailers == [b"Expires: never", b"X-A:b"] and r.extra == b"rest", "trailers")
    chk(r.trailer_bytes == len(b"Expires: never\r\nX-A:b\r\n"), "trailer byte count")
    # extensions: name, name=token, name="quoted", BWS, quoted-pair, case and leading zeros of the size
    r = read(b'00A;x;y=z;q="a b;c\t\xe9" ; w = "v"\r\n0123456789\r\n000;last\r\n\r\n')
    chk(r.status == "complete" and r.body == b"0123456789" and {"ext", "bws", "leading-zeros"} <= r.notes, "extensions")
    chk("quoted-pair" not in r.notes, "no quoted pair")
    r = read(b'1;q="a\\"b"\r\nX\r\n0\r\n\r\n')
    chk(r.status == "complete" and r.body == b"X" and "quoted-pair" in r.notes, "quoted-pair")
    chk(r.max_size_line == len(b'1;q="a\\"b"'), "size line length")
    chk(r.ext_backslash == 1 and read(b"1;a\r\nX\r\n0\r\n\r\n").ext_backslash is None, "backslash offset")
    # incomplete at every prefix of a valid encoding, complete only at the end
    enc = b"5;e=1\r\nhello\r\n1\r\n!\r\n0\r\nT: v\r\n\r\n"
    for k in range(len(enc)):
        p = read(enc[:k])
        chk(p.status == "incomplete" and b"hello!".startswith(p.body), "prefix %d must be incomplete" % k)
    chk(read(enc).status == "complete" and read(enc).body == b"hello!", "full encoding")
    # error categories
    for bad in (b"0x5\r\nhello\r\n0\r\n\r\n", b"+5\r\nhello\r\n", b"-5\r\nhello\r\n", b" 5\r\nhello\r\n", b"5 \r\nhello\r\n",
                b"\r\n", b"5g\r\nhello\r\n", b"5_0\r\n", b"5\n\r\nhello\r\n", b"5\n;x\r\nhello\r\n", b"g\r\n"):
        r = read(bad)
        chk(r.status == "invalid" and r.error == "size-not-hex" and r.error_offset == 0, "size-not-hex %r -> %r" % (bad, r))
    r = read(b"5 ;x\r\nhello\r\n0\r\n\r\n")
    chk(r.status == "invalid" and r.error == "size-bws", "BWS before the first semicolon")
    r = read(b"2\r\nab\r\n;x\r\n")
    chk(r.status == "invalid" and r.error == "size-not-hex" and r.body == b"ab" and r.error_offset == 7, "empty size token")
    for bad in (b"5;a\x00b\r\nhello\r\n", b"5;a\rb\r\nhello\r\n", b"5;a\x7f\r\n", b"5;a=\"\n\"\r\n", b"5;\x1f\r\n"):
        r = read(bad)
        chk(r.status == "invalid" and r.error == "ext-ctl", "ext-ctl %r -> %r" % (bad, r))
    for bad in (b"5;\r\n", b"5;;a\r\n", b"5;a=\r\n", b"5;=b\r\n", b'5;a="b\r\n', b"5;a b\r\n", b'5;a="b"c\r\n', b"5;a;\r\n",
                b"5;a \r\n", b'5;a="\\', b"5;a=b=c\r\n", b"5;a,b\r\n"):
        r = read(bad + b"hello\r\n0\r\n\r\n")
        chk(r.status == "invalid" and r.error == "ext-malformed", "ext-malformed %r -> %r" % (bad, r))
    for bad in (b"5\r\nhello\n\r", b"5\r\nhello\r\r", b"5\r\nhelloXX", b"5\r\nhello\n\n", b"5\r\nhello!\r\n", b"5\r\nhell\r\n0"):
        r = read(bad)
        chk(r.status == "invalid" and r.error == "data-not-crlf" and r.error_offset == 8, "data-not-crlf %r -> %r" % (bad, r))
    chk(read(b"5\r\nhello\r").status == "incomplete", "one byte after data is not enough to decide")
    for bad in (b"0\r\nno colon\r\n\r\n", b"0\r\n: v\r\n\r\n", b"0\r\nbad name: v\r\n\r\n", b"0\r\nA: b\x00\r\n\r\n", b"0\r\nA: b\nc\r\n\r\n"):
        r = read(bad)
        chk(r.status == "invalid" and r.error == "trailer-malformed", "trailer-malformed %r -> %r" % (bad, r))
    # a huge size is grammatical; data is simply incomplete
    chk(read(b"F" * 40 + b"\r\nabc").status == "incomplete", "huge size")
    # encoder agrees with the reader
    e = encode([b"ab", b"c" * 17], exts=[b";x", b""], last_ext=b";l=1", trailers=[b"A: b"], sizes=[b"002", b"11"])
    chk(e == b"002;x\r\nab\r\n11\r\n" + b"c" * 17 + b"\r\n0;l=1\r\nA: b\r\n\r\n", "encoder bytes")
    r = read(e + b"tail")
    chk(r.status == "complete" and r.body == b"ab" + b"c" * 17 and r.extra == b"tail", "encoder round trip")
    return True


if __name__ == "__main__":
    selftest()
    print("refchunked selftest ok")
