"""Reference timer-set model, history generator and monitoring driver shared by C08 and C09.

Times are integers counted in 1/16 s ("ticks"); every float handed to the real code is n/16, so
the implementation's float arithmetic is exact and the model can use ints/Fractions.

A *history* is a list of JSON-able operations::

    ["call", d, body]      callLater(d/16, ...); `body` = operations run from inside the call
    ["cancel", tgt]        tgt = ["p", r]  r-th (mod n) call the model holds pending (by creation id)
    ["reset", tgt, d]            ["a", r]  r-th (mod n) call ever created (also finished ones)
    ["delay", tgt, d]            "self"    the running call itself (outside a call: last created)
                                 ["last"]  the most recently created call (schedule-and-cancel pairs)
    ["adv", a, chk]        top level only: advance the clock by a/16 and run one reactor iteration
                           (reactor mode) / Clock.advance (clock mode); chk: also check timeout()
    ["raise"]              inside a body only: the running call raises Boom here (rest of its body is skipped)
    ["timeout"]            top level only, reactor mode: check timeout() (this also makes the
                           reactor move staged calls into its heap, like mainLoop does)

The driver executes the operations on the real object through a small target adapter, mirrors
them on the model, and checks the real observations (runs, getDelayedCalls(), getTime(),
timeout(), exceptions) against the model *relationally* (ties are unordered).
"""
from fractions import Fraction

U = 16
PENDING, CALLED, CANCELLED = "pending", "called", "cancelled"


class Boom(Exception):
    """Raised on purpose by a timed call (body operation ["raise"])."""


class Rec:
    __slots__ = ("cid", "sched", "state", "born_run", "resched", "body", "dc", "exempt")

    def __init__(self, cid, sched, body, born_run):
        self.cid = cid
        self.sched = sched  # currently scheduled time (getTime() semantics), in ticks
        self.state = PENDING
        self.born_run = born_run  # id of the iteration/advance it was created in, -1 = outside
        self.resched = False
        self.body = body
        self.dc = None
        self.exempt = False  # clock mode: a negative delay moved it before the last run time


# ---- target adapters -----------------------------------------------------------------------------
class ReactorTarget:
    """A ReactorBase (sub)class instance whose `seconds` is controlled; one step = iterate(0)."""

    mode = "reactor"

    def __init__(self, reactor, label):
        self.r = reactor
        self.label = label
        self.clock = 0.0
        reactor.seconds = self._seconds

    def _seconds(self):
        return self.clock

    def callLater(self, d, f, *a):
        return self.r.callLater(d, f, *a)

    def step(self, amount):
        self.clock += amount
        self.r.iterate(0)

    def pending(self):
        return list(self.r.getDelayedCalls())

    def timeout(self):
        return self.r.timeout()

    def struct(self):
        """Internal layout, used ONLY for state hashing / evidence counters (never asserted)."""
        r = self.r
        try:
            return (tuple((id(c), c.time, c.delayed_time, c.cancelled) for c in r._pendingTimedCalls),
                    tuple((id(c), c.time, c.delayed_time, c.cancelled) for c in r._newTimedCalls))
        except AttributeError:
            return None

    def dispose(self):
        r = self.r
        for c in list(r.getDelayedCalls()):
            try:
                c.cancel()
            except Exception:  # noqa: BLE001 - a broken getDelayedCalls() (already reported) must not kill the shard
                pass
        readers = getattr(r, "_internalReaders", None)
        if readers:
            for reader in list(readers):
                r.removeReader(reader)
                reader.connectionLost(None)
            readers.clear()
        p = getattr(r, "_poller", None)
        if p is not None and hasattr(p, "close"):
            p.close()


class ClockTarget:
    """twisted.internet.task.Clock; one step = advance(amount)."""

    mode = "clock"
    label = "task.Clock"

    def __init__(self, clock):
        self.c = clock

    def callLater(self, d, f, *a):
        return self.c.callLater(d, f, *a)

    def step(self, amount):
        self.c.advance(amount)

    def pending(self):
        return list(self.c.getDelayedCalls())

    def struct(self):
        try:
            return tuple((id(c), c.time, c.delayed_time) for c in self.c.calls)
        except AttributeError:
            return None

    def dispose(self):
        pass


# ---- the monitoring driver ---------------------------------------------------------------------------
class TimerRun:
    def __init__(self, ctx, target, max_calls=60, history=None):
        self.ctx = ctx
        self.t = target
        self.mode = target.mode
        self.max_calls = max_calls
        self.history = history
        self.recs = []
        self.pend = {}  # cid -> Rec, model's pending set
        self.by_dc = {}
        self.now = 0
        self.run_id = 0
        self.in_run = False
        self.events = []
        self.bad = False
        self.last_run_sched = None
        self.unresched_run_max = {}  # sched -> max cid among never-rescheduled calls already run
        self.stats = {}

    # -- reporting
    def stat(self, k, n=1):
        self.stats[k] = self.stats.get(k, 0) + n

    def fail(self, key, what, **extra):
        if self.bad:
            return
        self.bad = True
        w = {"target": self.t.label, "mode": self.mode, "max_calls": self.max_calls, "history": self.history,
             "events_tail": self.events[-60:], "model_now_ticks": self.now,
             "model_pending": {c: r.sched for c, r in self.pend.items()}}
        w.update(extra)
        self.ctx.violation(key, what, w)

    # -- operations
    def resolve(self, tgt, me):
        if tgt == "self":
            if me is not None:
                return me
            return self.recs[-1] if self.recs else None
        if tgt[0] == "last":
            return self.recs[-1] if self.recs else None
        kind, r = tgt[0], tgt[1]
        if kind == "p" and self.pend:
            keys = list(self.pend)
            return self.pend[keys[r % len(keys)]]
        if not self.recs:
            return None
        return self.recs[r % len(self.recs)]

    def exec_op(self, op, me=None):
        k = op[0]
        if k == "call":
            if len(self.recs) >= self.max_calls:
                return
            d = op[1]
            rec = Rec(len(self.recs), self.now + d, op[2], self.run_id if self.in_run else -1)
            self.recs.append(rec)
            self.pend[rec.cid] = rec
            rec.dc = self.t.callLater(d / U, self.fire, rec.cid)
            self.by_dc[id(rec.dc)] = rec
            self.events.append(("call", rec.cid, d, "in" if me is not None else "top"))
            self.stat("op_call_in" if me is not None else "op_call")
        elif k in ("cancel", "reset", "delay"):
            rec = self.resolve(op[1], me)
            if rec is None:
                return
            expect = None if rec.state == PENDING else ("AlreadyCalled" if rec.state == CALLED else "AlreadyCancelled")
            got = None
            try:
                if k == "cancel":
                    rec.dc.cancel()
                elif k == "reset":
                    rec.dc.reset(op[2] / U)
                else:
                    rec.dc.delay(op[2] / U)
            except Exception as e:  # noqa: BLE001 - the type is the observation
                got = type(e).__name__
            self.events.append((k, rec.cid, op[2] if k != "cancel" else None, got, "in" if me is not None else "top"))
            if got != expect:
                self.fail("wrong-exception", "%s() on a %s call raised %s, expected %s" % (k, rec.state, got, expect),
                          call=rec.cid, op=list(op))
                return
            if expect is not None:
                self.stat("refused_" + expect)
                return
            self.stat("eff_%s%s" % (k, "_in" if me is not None else ""))
            if k == "cancel":
                rec.state = CANCELLED
                del self.pend[rec.cid]
                if self.in_run and rec.born_run == self.run_id:
                    self.stat("eff_cancel_of_call_created_in_this_run")
            elif k == "reset":
                rec.sched = self.now + op[2]
                rec.resched = True
            else:
                rec.sched += op[2]
                rec.resched = True
                if op[2] < 0:
                    self.stat("eff_negative_delay")
                    if self.last_run_sched is not None and rec.sched < self.last_run_sched:
                        rec.exempt = True
        elif k == "adv":
            if me is None:
                self.step(op[1], bool(op[2]) if len(op) > 2 else False)
            return
        elif k == "timeout":
            if me is None and self.mode == "reactor":
                self.check_timeout()
            return
        self.check_pending()

    def fire(self, cid):
        rec = self.recs[cid]
        self.events.append(("run", cid, self.now))
        self.stat("runs")
        if not self.bad:
            self.on_run(rec)
        if rec.state == PENDING:
            rec.state = CALLED
            self.pend.pop(cid, None)
        if not self.bad:
            self.check_pending()
        for op in rec.body:
            if op[0] == "raise":
                self.stat("raised_calls")
                self.events.append(("raise", cid))
                raise Boom(cid)
            self.exec_op(op, me=rec)

    def eligible(self, rec):
        return self.mode == "clock" or rec.born_run != self.run_id

    def on_run(self, rec):
        if rec.state != PENDING:
            self.fail("ran-after-cancel" if rec.state == CANCELLED else "ran-twice",
                      "call %d ran although the model has it %s" % (rec.cid, rec.state), call=rec.cid)
            return
        if not self.in_run:
            self.fail("ran-outside-iteration", "call %d ran outside iterate()/advance()" % rec.cid, call=rec.cid)
            return
        if not self.eligible(rec):
            self.fail("ran-in-creating-iteration", "call %d was scheduled during this reactor iteration and ran in it" % rec.cid,
                      call=rec.cid)
            return
        if rec.sched > self.now:
            self.fail("ran-early", "call %d ran at %s/16 before its scheduled time %s/16" % (rec.cid, self.now, rec.sched),
                      call=rec.cid, scheduled=rec.sched)
            return
        tie = False
        for o in self.pend.values():
            if o is rec or not self.eligible(o):
                continue
            if o.sched < rec.sched:
                self.fail("ran-out-of-order", "call %d (scheduled %s/16) ran while call %d (scheduled %s/16) was pending"
                          % (rec.cid, rec.sched, o.cid, o.sched), call=rec.cid, earlier=o.cid)
                return
            if o.sched == rec.sched:
                tie = True
        if tie:
            self.stat("ties_at_run")
        if self.mode == "clock":
            # creation order among never-rescheduled calls for the same time (decided when both have run)
            if not rec.resched:
                m = self.unresched_run_max.get(rec.sched, -1)
                if m > rec.cid:
                    self.fail("tie-not-in-creation-order", "call %d ran after call %d: same time %s/16, neither ever rescheduled"
                              % (rec.cid, m, rec.sched), call=rec.cid, later_created=m)
                    return
                if m >= 0:
                    self.stat("creation_order_ties")
                self.unresched_run_max[rec.sched] = rec.cid
            # literal monotonicity, except for calls a negative delay moved into the past of the last run
            if self.last_run_sched is not None and rec.sched < self.last_run_sched and not rec.exempt:
                self.fail("run-times-decreasing", "call %d (scheduled %s/16) ran after a call scheduled %s/16"
                          % (rec.cid, rec.sched, self.last_run_sched), call=rec.cid)
                return
            self.stat("monotonic_checks")
            if rec.exempt:
                self.stat("exempt_past_runs")
        self.last_run_sched = rec.sched if self.last_run_sched is None else max(self.last_run_sched, rec.sched)
        self.stat("run_checks")

    def step(self, a, chk=False):
        self.now += a
        self.run_id += 1
        self.in_run = True
        self.events.append(("adv", a, self.now))
        before = len(self.pend)
        aborted = False
        try:
            self.t.step(a / U)
        except Boom as e:
            # Clock.advance() lets a call's exception propagate (test double, documented); the reactor must not.
            self.in_run = False
            if self.mode != "clock":
                self.fail("step-raised", "iterate() let the exception of a timed call escape: %r" % (e,))
                return
            aborted = True
            self.stat("advances_aborted_by_raising_call")
        except Exception as e:  # noqa: BLE001
            self.in_run = False
            self.fail("step-raised", "iterate()/advance() raised %s: %s" % (type(e).__name__, e))
            return
        self.in_run = False
        self.stat("steps")
        if self.bad:
            return
        for o in (() if aborted else self.pend.values()):  # (what an aborted advance left behind runs in a later one: unjudged)
            if o.born_run != self.run_id or self.mode == "clock":
                if o.sched <= self.now:
                    self.fail("due-call-not-run", "call %d scheduled %s/16 was still pending after the %s at %s/16"
                              % (o.cid, o.sched, "advance" if self.mode == "clock" else "iteration", self.now), call=o.cid)
                    return
        if before != len(self.pend):
            self.stat("steps_with_runs")
        self.stat("end_of_step_checks")
        self.check_pending()
        if chk and self.mode == "reactor":
            self.check_timeout()

    # -- observation checks
    def check_pending(self):
        if self.bad:
            return
        real = self.t.pending()
        seen = set()
        for dc in real:
            rec = self.by_dc.get(id(dc))
            if rec is None or rec.cid in seen or rec.cid not in self.pend:
                break
            seen.add(rec.cid)
        else:
            if len(seen) == len(self.pend):
                for dc in real:
                    rec = self.by_dc[id(dc)]
                    gt = dc.getTime()
                    if Fraction(gt) * U != rec.sched:
                        self.fail("gettime-mismatch", "getTime() of pending call %d is %r, model %s/16" % (rec.cid, gt, rec.sched),
                                  call=rec.cid)
                        return
                    if not dc.active():
                        self.fail("active-mismatch", "active() is false for pending call %d" % rec.cid, call=rec.cid)
                        return
                self.stat("pending_checks")
                return
        got = sorted(self.by_dc[id(dc)].cid if id(dc) in self.by_dc else -1 for dc in real)
        self.fail("getdelayedcalls-mismatch", "getDelayedCalls() != pending set of the model",
                  got=got, expected=sorted(self.pend))

    def check_timeout(self):
        if self.bad:
            return
        t = self.t.timeout()
        self.events.append(("timeout", t))
        self.stat("timeout_checks")
        if not self.pend:
            if t is None:
                self.stat("timeout_none")
            return
        earliest = min(r.sched for r in self.pend.values())
        bound = max(0, earliest - self.now)
        if t is None:
            self.fail("timeout-none-with-pending", "timeout() is None with %d pending calls" % len(self.pend), bound_ticks=bound)
        elif Fraction(t) * U > bound:
            self.fail("timeout-exceeds-earliest", "timeout() %r exceeds time to the earliest pending call %s/16" % (t, bound),
                      bound_ticks=bound, got=t)
        elif t < 0:
            self.fail("timeout-negative", "timeout() %r is negative" % (t,), got=t)
        else:
            if Fraction(t) * U < bound:
                self.stat("timeout_smaller_than_needed")
            self.stat("timeout_bounded")

    # -- whole histories
    def run(self, history):
        self.history = history
        for op in history:
            if self.bad:
                break
            self.exec_op(op)
        self.drain()
        return self

    def drain(self):
        """Quiescence: advance far enough, a bounded number of times, for everything pending to run."""
        n = 0
        while self.pend and not self.bad and n < 4 * self.max_calls + 8:
            n += 1
            far = max(r.sched for r in self.pend.values()) - self.now
            self.step(max(far, 0), chk=(n % 2 == 0))
        if self.pend and not self.bad:
            self.fail("drain-did-not-finish", "calls keep being pending after %d far advances" % n)
        if not self.bad:
            for r in self.recs:
                if r.state == PENDING:
                    self.fail("never-ran", "call %d neither ran nor was cancelled" % r.cid, call=r.cid)
                    break

    def nontrivial(self):
        s = self.stats
        return s.get("runs", 0) >= 1 and (s.get("eff_cancel", 0) + s.get("eff_reset", 0) + s.get("eff_delay", 0)
                                          + s.get("eff_cancel_in", 0) + s.get("eff_reset_in", 0) + s.get("eff_delay_in", 0)
                                          + s.get("op_call_in", 0)) >= 1

    def flush(self):
        for k, v in self.stats.items():
            self.ctx.count(k, v)

    def model_state(self):
        return (self.now, tuple((r.state, r.sched, r.resched, _freeze(r.body)) for r in self.recs))


def _freeze(o):
    return tuple(_freeze(x) for x in o) if isinstance(o, (list, tuple)) else o


# ---- history generation ------------------------------------------------------------------------------
def gen_history(rng, family=None, allow_timeout=True):
    """Random history; returns (history, max_calls).  Families: generic, bodies, burst."""
    if family is None:
        family = rng.choice(["generic", "generic", "bodies", "burst"])
    grid = rng.choice([1, 2, 4, 8, 16, 48])
    K = rng.choice([2, 3, 5, 8, 40])
    body_p = {"generic": 0.25, "bodies": 0.8, "burst": 0.1}[family]
    chk_p = rng.choice([0.0, 0.3, 1.0]) if allow_timeout else 0.0
    raise_p = rng.choice([0.0, 0.0, 0.1, 0.3])  # timed calls that raise

    def delay():
        return grid * rng.randrange(K)

    def signed():
        return delay() * rng.choice([1, 1, -1])

    def target():
        r = rng.random()
        if r < 0.65:
            return ["p", rng.randrange(64)]
        if r < 0.83:
            return ["a", rng.randrange(64)]
        if r < 0.91:
            return ["last"]
        return "self"

    def body(depth):
        if rng.random() > body_p:
            return [["raise"]] if rng.random() < raise_p / 2 else []
        ops = []
        for _ in range(rng.choice([1, 1, 2, 2, 3, 5])):
            if rng.random() < 0.15:
                ops += sched_and_cancel()
            else:
                ops.append(inner(depth))
        if rng.random() < raise_p:
            ops.insert(rng.randrange(len(ops) + 1), ["raise"])
        return ops

    def sched_and_cancel():
        # callLater(...).cancel(): the cancelled call never leaves the staging list on its own
        return [["call", delay(), []], ["cancel", ["last"]]]

    def inner(depth):
        r = rng.random()
        if r < 0.35:
            return ["call", delay() if rng.random() < 0.7 else 0, body(depth + 1) if depth < 2 else []]
        if r < 0.55:
            return ["cancel", target()]
        if r < 0.8:
            return ["reset", target(), delay() if rng.random() < 0.7 else 0]
        return ["delay", target(), signed()]

    def adv():
        return ["adv", grid * rng.choice([0, 0, 1, 1, 1, 2, 3, K, 2 * K]), rng.random() < chk_p]

    def top():
        r = rng.random()
        if r < 0.30:
            return ["call", delay(), body(0)]
        if r < 0.42:
            return ["cancel", target()]
        if r < 0.57:
            return ["reset", target(), delay()]
        if r < 0.72:
            return ["delay", target(), signed()]
        if r < 0.76 and allow_timeout:
            return ["timeout"]
        return adv()

    h = []
    max_calls = 60
    if family == "burst":
        # > 50 cancelled entries sitting in the heap with a small live set: forces compaction
        max_calls = 90
        n = rng.randrange(54, 61)
        base = grid * rng.randrange(1, 4)
        for _ in range(n):
            h.append(["call", base + grid * rng.randrange(max(K, 8)), body(0) if rng.random() < 0.3 else []])
        h.append(rng.choice([["adv", 0, False], ["timeout"], ["adv", 0, True]]) if allow_timeout else ["adv", 0, False])
        live = rng.randrange(2, min(10, n - 51) + 1)
        a = rng.randrange(0, base + 1)
        n_trig = rng.choice([0, 1, 1, 2, 3])
        if n_trig:
            # calls that run in the very iteration that compacts the heap and, from inside it, schedule
            # and cancel new calls (those sit cancelled in the staging list while the heap is compacted)
            max_calls += 3 * n_trig + 10
        late = []
        for _ in range(n_trig):
            b = sched_and_cancel()
            if rng.random() < 0.4:
                b += rng.choice([sched_and_cancel(), [["call", delay(), []]], [["cancel", ["p", rng.randrange(64)]]]])
            trig = ["call", rng.randrange(0, a + 1), b]
            if rng.random() < 0.3:
                h.insert(rng.randrange(0, n + 1), trig)  # in the heap early; may itself be hit by the cancel burst
            else:
                late.append(trig)  # scheduled after the burst, staged until the compacting iteration starts
        for _ in range(n - live):
            h.append(["cancel", ["p", rng.randrange(64)]])
            if rng.random() < 0.05:
                h.append(["reset", ["p", rng.randrange(64)], delay() + base])
        h += late
        h.append(["adv", a, rng.random() < 0.5 and allow_timeout])
        for _ in range(rng.choice([0, 1, 1, 2])):
            h += sched_and_cancel()  # a lone scheduled-and-cancelled call right after the compaction
            if rng.random() < 0.5:
                h.append(rng.choice([["timeout"], ["adv", 0, False]]) if allow_timeout else ["adv", 0, False])
        n_tail = rng.randrange(5, 40)
    else:
        n_tail = rng.choice([rng.randrange(3, 12), rng.randrange(10, 60), rng.randrange(50, 200)])
    for _ in range(n_tail):
        if rng.random() < 0.06:
            h += sched_and_cancel()
        else:
            h.append(top())
    return h, max_calls
