"""E7 — RFC 9110 section 14 byte-range reference (no twisted imports).

* classify(value)            -> (klass, specs): how a Range header value must be treated
* resolve(specs, size)       -> the satisfiable ranges [(first, last_inclusive)] in request order
* expected(value, size)      -> dict describing the acceptable responses of a GET
* parse_content_range(value) -> ("range", a, b, total) | ("unsat", total) | None
* read_multipart_byteranges(body, content_type) -> [{"headers", "content_range", "data"}]

Classes of header values (RFC 9110 14.1.1, 14.1.2, 14.2, 5.6.1.2):

  absent     no header                                           -> whole representation
  valid      bytes=1#( first-[last] / -suffix ), OWS and empty
             list elements allowed                               -> resolved exactly
  invalid    matches the grammar but some last-pos < first-pos   -> header ignored (whole)
  other-unit range unit is a token other than "bytes"            -> header ignored (whole)
  malformed  anything else that no reading can make sense of     -> header ignored (whole)
  lenient    RFC-invalid, but each side of every spec is empty or
             acceptable to Python's int() (sign, underscores, inner
             blanks), or unit differs only in case/blank, or the
             set is empty: a server may ignore (whole), reject (416)
             or read leniently (self-consistent 206)             -> don't-care region
"""
import re

_TOKEN = re.compile(rb"\A[!#$%&'*+\-.^_`|~0-9A-Za-z]+\Z")
_INT_RANGE = re.compile(rb"\A([0-9]+)-([0-9]*)\Z")
_SUFFIX = re.compile(rb"\A-([0-9]+)\Z")
_OWS = b" \t"


def _pyint(b):
    """int() of a non-empty side, None if Python would refuse it."""
    try:
        return int(b)
    except ValueError:
        return None


def _lenient_specs(rangeset):
    """Lenient reading: split each non-empty element at its first '-'.  None if impossible."""
    out = []
    for el in rangeset.split(b","):
        el = el.strip()
        if not el:
            continue
        if b"-" not in el:
            return None
        a, b = el.split(b"-", 1)
        if not a.strip() and not b.strip():
            return None
        ia = _pyint(a) if a.strip() else None
        ib = _pyint(b) if b.strip() else None
        if (a.strip() and ia is None) or (b.strip() and ib is None):
            return None
        out.append(("suffix", ib) if ia is None else ("int", ia, ib))
    return out


def classify(value):
    """-> (klass, specs).  specs: [("int", first, last|None) | ("suffix", n)] (valid/invalid/lenient)."""
    if value is None:
        return "absent", []
    if b"=" not in value:
        return "malformed", []
    unit, rangeset = value.split(b"=", 1)
    if unit != b"bytes":
        if unit.strip().lower() == b"bytes":
            specs = _lenient_specs(rangeset)
            return ("lenient", specs) if specs is not None else ("malformed", [])
        if _TOKEN.match(unit):
            return "other-unit", []
        return "malformed", []
    specs = []
    strict = True
    for el in rangeset.split(b","):
        el = el.strip(_OWS)
        if not el:
            continue
        m = _INT_RANGE.match(el)
        if m:
            specs.append(("int", int(m.group(1)), int(m.group(2)) if m.group(2) else None))
            continue
        m = _SUFFIX.match(el)
        if m:
            specs.append(("suffix", int(m.group(1))))
            continue
        strict = False
        break
    if strict and specs:
        for s in specs:
            if s[0] == "int" and s[2] is not None and s[2] < s[1]:
                return "invalid", specs
        return "valid", specs
    # not in the grammar: is there a lenient reading (including the empty set)?
    specs = _lenient_specs(rangeset)
    if specs is not None:
        return "lenient", specs
    return "malformed", []


def resolve(specs, size):
    """Satisfiable ranges in request order as (first, last) inclusive.  RFC 9110 14.1.2."""
    out = []
    for s in specs:
        if s[0] == "int":
            first, last = s[1], s[2]
            if first >= size:
                continue
            out.append((first, size - 1 if last is None or last >= size else last))
        else:
            n = s[1]
            if n <= 0 or size == 0:
                continue
            out.append((max(0, size - n), size - 1))
    return out


def expected(value, size):
    """What a GET may answer.

    {"klass":..., "nspecs": n, "accept": [alternatives]} where an alternative is one of
      ("whole",)                     200 + entire content
      ("single", (a, b))             206, Content-Range a-b/size
      ("multi", [(a, b), ...])       206 multipart/byteranges with exactly these parts in order
      ("unsat",)                     416, Content-Range */size
      ("consistent",)                any self-consistent 206 (lenient region only)
    """
    klass, specs = classify(value)
    if klass in ("absent", "invalid", "other-unit", "malformed"):
        return {"klass": klass, "nspecs": len(specs), "accept": [("whole",)], "specs": specs}
    if klass == "lenient":
        return {"klass": klass, "nspecs": len(specs), "accept": [("whole",), ("unsat",), ("consistent",)], "specs": specs}
    sat = resolve(specs, size)
    acc = []
    if size == 0 and any(s[0] == "suffix" and s[1] > 0 for s in specs):
        # RFC 9110 calls a non-zero suffix satisfiable even on an empty representation, but no
        # Content-Range can describe zero bytes: whole (empty) content or 416 are both fine
        acc = [("whole",), ("unsat",)]
    elif not sat:
        acc = [("unsat",)]
    elif len(specs) == 1:
        acc = [("single", sat[0])]
    else:
        acc = [("multi", sat)]
        if len(sat) == 1:
            acc.append(("single", sat[0]))
    return {"klass": klass, "nspecs": len(specs), "accept": acc, "specs": specs}


_CR = re.compile(rb"\A\s*bytes\s+(?:([0-9]+)-([0-9]+)|(\*))/([0-9]+|\*)\s*\Z")


def parse_content_range(value):
    m = _CR.match(value)
    if not m or m.group(4) == b"*":
        return None
    total = int(m.group(4))
    if m.group(3):
        return ("unsat", total)
    return ("range", int(m.group(1)), int(m.group(2)), total)


def multipart_boundary(content_type):
    m = re.match(rb'\A\s*multipart/byteranges\s*;\s*boundary=(?:"([^"]+)"|([^\s;]+))\s*\Z', content_type, re.I)
    if not m:
        return None
    return m.group(1) or m.group(2)


class MultipartError(Exception):
    pass


def read_multipart_byteranges(body, content_type):
    """RFC 2046 5.1.1 reader specialised to multipart/byteranges (RFC 9110 14.6)."""
    boundary = multipart_boundary(content_type)
    if boundary is None:
        raise MultipartError("not multipart/byteranges with a boundary: %r" % (content_type,))
    delim = b"\r\n--" + boundary
    data = b"\r\n" + body  # the first delimiter may start the body without a preceding CRLF
    pieces = data.split(delim)
    if len(pieces) < 2:
        raise MultipartError("no boundary delimiter in body")
    # pieces[0] is the preamble; the close delimiter is "--boundary--"
    parts = []
    closed = False
    for p in pieces[1:]:
        if closed:
            raise MultipartError("delimiter after the close delimiter")
        if p.startswith(b"--"):
            closed = True
            epilogue = p[2:]
            if epilogue.strip(b" \t") not in (b"", b"\r\n"):
                raise MultipartError("unexpected epilogue %r" % (epilogue[:40],))
            continue
        # transport padding then CRLF
        i = p.find(b"\r\n")
        if i < 0 or p[:i].strip(b" \t"):
            raise MultipartError("boundary line not terminated by CRLF")
        p = p[i + 2:]
        if p.startswith(b"\r\n"):
            hdr, content = b"", p[2:]
        else:
            j = p.find(b"\r\n\r\n")
            if j < 0:
                raise MultipartError("part without header/body separator")
            hdr, content = p[:j], p[j + 4:]
        headers = []
        for line in hdr.split(b"\r\n") if hdr else []:
            if b":" not in line:
                raise MultipartError("bad part header line %r" % (line,))
            n, v = line.split(b":", 1)
            headers.append((n.strip().lower(), v.strip()))
        cr = [v for n, v in headers if n == b"content-range"]
        if len(cr) != 1:
            raise MultipartError("part must carry exactly one Content-Range")
        parts.append({"headers": headers, "content_range": parse_content_range(cr[0]), "data": content})
    if not closed:
        raise MultipartError("missing close delimiter")
    return parts


def selftest():
    c = classify
    assert c(None) == ("absent", [])
    assert c(b"bytes=0-499") == ("valid", [("int", 0, 499)])
    assert c(b"bytes=500-") == ("valid", [("int", 500, None)])
    assert c(b"bytes=-500") == ("valid", [("suffix", 500)])
    assert c(b"bytes=0-0,-1") == ("valid", [("int", 0, 0), ("suffix", 1)])
    assert c(b"bytes= 0-1 ,\t, 5-") == ("valid", [("int", 0, 1), ("int", 5, None)])
    assert c(b"bytes=5-3")[0] == "invalid"
    assert c(b"items=0-5")[0] == "other-unit"
    assert c(b"bytes")[0] == "malformed"
    assert c(b"bytes=abc")[0] == "malformed"
    assert c(b"bytes=5")[0] == "malformed"
    assert c(b"bytes=-")[0] == "malformed"
    assert c(b"bytes=1-2-3")[0] == "malformed"
    assert c(b"bytes=0x1-0x2")[0] == "malformed"
    assert c(b"b ytes=1-2")[0] == "malformed"
    assert c(b"bytes=+1-2") == ("lenient", [("int", 1, 2)])
    assert c(b"bytes=1_0-20")[0] == "lenient"
    assert c(b"bytes=1 - 2")[0] == "lenient"
    assert c(b"bytes =1-2")[0] == "lenient"
    assert c(b"Bytes=1-2")[0] == "lenient"
    assert c(b"bytes=") == ("lenient", [])
    assert c(b"bytes=,,") == ("lenient", [])
    assert c(b"bytes=--5") == ("lenient", [("suffix", -5)])
    # RFC 9110 14.1.2 examples on a 10000-byte representation
    r = lambda v, n: resolve(classify(v)[1], n)
    assert r(b"bytes=0-499", 10000) == [(0, 499)]
    assert r(b"bytes=500-999", 10000) == [(500, 999)]
    assert r(b"bytes=-500", 10000) == [(9500, 9999)]
    assert r(b"bytes=9500-", 10000) == [(9500, 9999)]
    assert r(b"bytes=0-0,-1", 10000) == [(0, 0), (9999, 9999)]
    assert r(b"bytes=500-600,601-999", 10000) == [(500, 600), (601, 999)]
    assert r(b"bytes=-20", 10) == [(0, 9)]
    assert r(b"bytes=5-100", 10) == [(5, 9)]
    assert r(b"bytes=9-9", 10) == [(9, 9)]
    assert r(b"bytes=10-", 10) == []
    assert r(b"bytes=10-12,3-3", 10) == [(3, 3)]
    assert r(b"bytes=-0", 10) == []
    assert r(b"bytes=0-", 0) == []
    assert expected(b"bytes=-0", 10)["accept"] == [("unsat",)]
    assert expected(b"bytes=-5", 0)["accept"] == [("whole",), ("unsat",)]
    assert expected(b"bytes=20-30,40-50", 10)["accept"] == [("unsat",)]
    assert expected(b"bytes=0-1,20-", 10)["accept"] == [("multi", [(0, 1)]), ("single", (0, 1))]
    assert expected(b"bytes=5-3", 10)["accept"] == [("whole",)]
    assert parse_content_range(b"bytes 0-4/10") == ("range", 0, 4, 10)
    assert parse_content_range(b"bytes */10") == ("unsat", 10)
    assert parse_content_range(b"bytes -10-9/10") is None
    assert parse_content_range(b"bytes 0-4") is None
    body = (b"\r\n--B\r\nContent-type: text/plain\r\nContent-range: bytes 0-1/10\r\n\r\nab"
            b"\r\n--B\r\nContent-Range: bytes 3-4/10\r\n\r\n\r\n"
            b"\r\n--B--\r\n")
    ps = read_multipart_byteranges(body, b'multipart/byteranges; boundary="B"')
    assert [(p["content_range"], p["data"]) for p in ps] == [(("range", 0, 1, 10), b"ab"), (("range", 3, 4, 10), b"\r\n")]
    ps = read_multipart_byteranges(b"--B\r\nContent-Range: bytes 0-0/1\r\n\r\nx\r\n--B--", b"multipart/byteranges; boundary=B")
    assert ps[0]["data"] == b"x"
    for bad in (b"--B\r\nContent-Range: bytes 0-0/1\r\n\r\nx", b"nothing", b"\r\n--B\r\nX: y\r\n\r\nx\r\n--B--\r\n"):
        try:
            read_multipart_byteranges(bad, b"multipart/byteranges; boundary=B")
        except MultipartError:
            pass
        else:
            raise AssertionError("accepted %r" % bad)
    return True


if __name__ == "__main__":
    selftest()
    print("refrange selftest ok")
