"""E7 refhttp — spec-derived HTTP/1.1 reference (RFC 9112 / RFC 9110), independent of twisted.

Part of the trusted base of C18-C21.  Nothing here imports twisted.  Contents:

* `parse_request` / `parse_stream`: request parser and framer with byte offsets.  Every request is
  put into one of three zones, because RFC 9112 leaves recipients latitude:

    - ``Req(zone="accept")``   canonical, well-formed: a server has no reason to refuse it;
    - ``Req(zone="dontcare")`` the RFC lets the recipient either reject or process it (obs-fold,
      odd whitespace in the request line, leading empty lines, CTLs other than NUL in values,
      BWS in chunk extensions, `identity`, versions other than 1.0/1.1, sizes near the documented
      limits ...); `notes` says why.  If the server processes it, the framing below is what the
      RFC assigns;
    - ``Stop(kind="reject")``  the message must be refused: both CL and TE; repeated or
      non-`1*DIGIT` Content-Length; a transfer coding that is neither chunked nor identity;
      malformed chunk size / chunk CRLF / CTL in a chunk extension; request line that is not three
      words `token  1*(%x21-7E)  HTTP/DIGIT.DIGIT`; header line without colon or whose name is not a
      token (which covers whitespace before the colon); NUL in a field value.  A reject is only
      reported once the offending element is completely present in the stream (whole head up to
      the empty line; whole chunk-size line; the two bytes after chunk data), otherwise the
      result is ``Stop(kind="incomplete")``.
  ``Stop(kind="undefined")``: the server may accept, and the RFC does not say what the body is
  (e.g. `Transfer-Encoding: chunked, chunked`).

* `decode_chunked`: RFC 9112 section 7.1 reader (own code, not shared with the C22 engine).
* `read_response` / `read_responses`: lenient line-based response reader that keeps raw head lines.
* generators for request streams (`gen_valid_request`, `gen_hostile_request`, `mutate_bytes`,
  `gen_stream`) — purely syntactic, driven by the caller's `random.Random`.
* `selftest()`: hand-written vectors for all of the above.
"""
import re

TCHAR = frozenset(b"!#$%&'*+-.^_`|~0123456789ABCDEFGHIJKLMNOPQRSTUVWXYZabcdefghijklmnopqrstuvwxyz")
HEXDIG = frozenset(b"0123456789abcdefABCDEF")
_VERSION_RE = re.compile(rb"HTTP/[0-9]\.[0-9]\Z")
_WS_RE = re.compile(rb"[ \t\x0b\x0c\r]+")
_EXT_CANON_RE = re.compile(
    rb"(?:;[!#$%&'*+\-.^_`|~0-9A-Za-z]+(?:=(?:[!#$%&'*+\-.^_`|~0-9A-Za-z]+|\"[\t \x21\x23-\x5b\x5d-\x7e\x80-\xff]*\"))?)*\Z")

# conservative versions of the limits twisted documents (anything near them is don't-care)
HEAD_SOFT_LIMIT = 16000
HEADER_COUNT_SOFT_LIMIT = 490
CHUNK_LINE_SOFT_LIMIT = 1000
TRAILER_SOFT_LIMIT = 60000


def is_token(b):
    return len(b) > 0 and all(c in TCHAR for c in b)


class Stop:
    """Why parsing stopped at `start`: kind in end / incomplete / reject / undefined."""

    def __init__(self, kind, reason, start, detail=None, notes=()):
        self.kind, self.reason, self.start, self.detail = kind, reason, start, detail
        self.notes = list(notes)  # don't-care notes collected before stopping (e.g. size-limits)

    def __repr__(self):
        return "Stop(%s, %s, at=%d%s)" % (self.kind, self.reason, self.start, "" if self.detail is None else ", %r" % (self.detail,))

    def as_dict(self):
        return {"kind": self.kind, "reason": self.reason, "start": self.start, "detail": self.detail, "notes": self.notes}


class Req:
    def __init__(self):
        self.start = self.end = self.body_start = 0
        self.method = self.target = self.version = b""
        self.headers = []  # (name, value) after unfolding and OWS trimming, wire order
        self.body = b""
        self.framing = "none"  # none / cl / chunked
        self.notes = []
        self.close = False
        self.expect100 = False
        self.trailers = []

    @property
    def zone(self):
        return "dontcare" if self.notes else "accept"

    def header_map(self):
        m = {}
        for n, v in self.headers:
            m.setdefault(n.lower(), []).append(v)
        return m

    def as_dict(self):
        return {"start": self.start, "end": self.end, "method": self.method, "target": self.target, "version": self.version,
                "headers": self.headers, "body": self.body, "framing": self.framing, "zone": self.zone, "notes": self.notes, "close": self.close}


# ------------------------------------------------------------------------------------------------
# chunked coding (RFC 9112 7.1)
# ------------------------------------------------------------------------------------------------
class Chunked:
    def __init__(self, status, reason=None, body=b"", end=0, trailers=(), notes=(), sizes=()):
        self.status, self.reason, self.body, self.end = status, reason, bytes(body), end
        self.trailers, self.notes, self.sizes = list(trailers), list(notes), list(sizes)


def _valid_field_line(line):
    if b":" not in line:
        return False
    n, v = line.split(b":", 1)
    return is_token(n) and not any((c < 0x20 and c != 9) or c == 0x7F for c in v)


def decode_chunked(data, pos=0):
    """Decode a chunked body starting at data[pos].  status: ok / incomplete / reject."""
    body = bytearray()
    notes = []
    sizes = []

    def note(x):
        if x not in notes:
            notes.append(x)

    while True:
        eol = data.find(b"\r\n", pos)
        if eol < 0:
            return Chunked("incomplete", "chunk-size-line", body, pos, notes=notes, sizes=sizes)
        line = data[pos:eol]
        size, sep, ext = line.partition(b";")
        ext = sep + ext
        stripped = size.rstrip(b" \t")
        if stripped != size:
            if not sep:
                return Chunked("reject", "chunk-size-not-hex", body, pos, notes=notes, sizes=sizes)
            note("bws-before-chunk-ext")
            size = stripped
        if not size or any(c not in HEXDIG for c in size):
            return Chunked("reject", "chunk-size-not-hex", body, pos, notes=notes, sizes=sizes)
        if any((c < 0x20 and c != 9) or c == 0x7F for c in ext):
            return Chunked("reject", "chunk-ext-ctl", body, pos, notes=notes, sizes=sizes)
        if not _EXT_CANON_RE.match(ext):
            note("chunk-ext-irregular")
        if len(line) >= CHUNK_LINE_SOFT_LIMIT:
            note("chunk-size-line-long")
        if len(size) > 16:
            note("chunk-size-many-digits")
        n = int(size, 16)
        pos = eol + 2
        sizes.append(n)
        if n == 0:
            break
        if len(data) - pos < n:
            return Chunked("incomplete", "chunk-data", body + data[pos:], len(data), notes=notes, sizes=sizes)
        body += data[pos:pos + n]
        pos += n
        if len(data) - pos < 2:
            return Chunked("incomplete", "chunk-crlf", body, pos, notes=notes, sizes=sizes)
        if data[pos:pos + 2] != b"\r\n":
            return Chunked("reject", "chunk-data-not-followed-by-crlf", body, pos, notes=notes, sizes=sizes)
        pos += 2
    trailers = []
    total = 0
    while True:
        eol = data.find(b"\r\n", pos)
        if eol < 0:
            return Chunked("incomplete", "trailer-section", body, pos, trailers, notes, sizes)
        if eol == pos:
            pos += 2
            break
        tl = data[pos:eol]
        trailers.append(tl)
        if not _valid_field_line(tl):
            note("trailer-irregular")
        total += len(tl) + 2
        if total > TRAILER_SOFT_LIMIT:
            note("trailers-long")
        pos = eol + 2
    return Chunked("ok", None, body, pos, trailers, notes, sizes)


# ------------------------------------------------------------------------------------------------
# requests
# ------------------------------------------------------------------------------------------------
def _next_line(data, pos, lf_mode):
    if not lf_mode:
        eol = data.find(b"\r\n", pos)
        if eol < 0:
            return None
        return data[pos:eol], eol + 2
    eol = data.find(b"\n", pos)
    if eol < 0:
        return None
    line = data[pos:eol]
    if line.endswith(b"\r"):
        line = line[:-1]
    return line, eol + 1


def classify_request_line(line):
    """-> (method, target, version, notes) or a reject reason string (+detail)."""
    words = _WS_RE.split(line.strip(b" \t\x0b\x0c\r"))
    if len(words) != 3:
        return "request-line-shape", len(words)
    method, target, version = words
    if not is_token(method):
        return "method-not-token", method
    bad = sorted(set(c for c in target if c < 0x21 or c > 0x7E))
    if bad or not target:
        return "target-byte", bad
    if not _VERSION_RE.match(version):
        return "version-syntax", version
    notes = []
    if line != b" ".join(words):
        notes.append("request-line-whitespace")
    if version not in (b"HTTP/1.0", b"HTTP/1.1"):
        notes.append("version-unsupported")
    return method, target, version, notes


def parse_request(data, pos=0, lf_mode=False):
    """Parse one request at data[pos:].  Returns Req or Stop.  lf_mode: a bare LF also terminates
    a head line (RFC 9112 2.2 MAY); default: only CRLF does and bare CR/LF stay in the element."""
    x = _parse_request(data, pos, lf_mode)
    if isinstance(x, tuple):
        x[0].notes = list(x[1])
        return x[0]
    return x


def _parse_request(data, pos, lf_mode):
    r = Req()
    r.start = pos
    notes = r.notes

    def note(x):
        if x not in notes:
            notes.append(x)

    # RFC 9112 2.2: a server SHOULD ignore at least one empty line before the request-line
    while True:
        nl = _next_line(data, pos, lf_mode)
        if nl is None:
            return (Stop("end" if pos >= len(data) else "incomplete", "head", r.start), notes)
        line, nxt = nl
        if line != b"":
            break
        note("leading-empty-line")
        pos = nxt
    reqline = line
    head_lines = []
    p = nxt
    while True:
        nl = _next_line(data, p, lf_mode)
        if nl is None:
            return (Stop("incomplete", "head", r.start), notes)
        hl, p = nl
        if hl == b"":
            break
        head_lines.append(hl)
    r.body_start = p
    if p - r.start > HEAD_SOFT_LIMIT or len(head_lines) > HEADER_COUNT_SOFT_LIMIT:
        note("size-limits")

    c = classify_request_line(reqline)
    if isinstance(c[0], str):
        return (Stop("reject", c[0], r.start, c[1]), notes)
    r.method, r.target, r.version, n0 = c
    for x in n0:
        note(x)

    cur = None
    fields = []
    for hl in head_lines:
        if hl[0] in b" \t":
            if cur is None:
                note("leading-whitespace-line")  # 2.2: reject, or consume without processing
            else:
                note("obs-fold")  # 5.2: reject, or replace by SP
                cur[1] += b" " + hl.strip(b" \t")
            continue
        if b":" not in hl:
            return (Stop("reject", "header-no-colon", r.start, hl[:60]), notes)
        name, value = hl.split(b":", 1)
        if not is_token(name):
            return (Stop("reject", "header-name-not-token", r.start, name[:60]), notes)
        cur = [name, value]
        fields.append(cur)
    for f in fields:
        v = f[1].strip(b" \t")
        if b"\x00" in v:
            return (Stop("reject", "header-value-nul", r.start, f[0]), notes)
        if any((ch < 0x20 and ch != 9) or ch == 0x7F for ch in v):
            note("header-value-ctl")
        r.headers.append((f[0], v))

    hm = r.header_map()
    cls = hm.get(b"content-length", [])
    tes = hm.get(b"transfer-encoding", [])
    codings = []
    for v in tes:
        for el in v.split(b","):
            codings.append(el.strip(b" \t"))
    names = [el.split(b";", 1)[0].strip(b" \t").lower() for el in codings]
    unsupported = [n for n, el in zip(names, codings) if n not in (b"chunked", b"identity") and not (el == b"")]
    effective_te = [n for n in names if n != b"identity" and n != b""]
    if unsupported:
        return (Stop("reject", "transfer-coding-unsupported", r.start, unsupported[:3]), notes)
    if effective_te and cls:
        return (Stop("reject", "both-cl-and-te", r.start), notes)
    if len(cls) > 1:
        return (Stop("reject", "content-length-repeated", r.start, cls[:3]), notes)
    if cls and not (cls[0] and all(0x30 <= ch <= 0x39 for ch in cls[0])):
        return (Stop("reject", "content-length-not-decimal", r.start, cls[0][:40]), notes)
    if tes and not effective_te:
        note("te-identity")
    if r.version == b"HTTP/1.1" and len(hm.get(b"host", [])) != 1:
        note("host-missing-or-repeated")  # RFC 9112 3.2 wants 400; not a framing/syntax defect, left don't-care
    for v in hm.get(b"connection", []):
        if b"close" in v.lower():
            r.close = True
    if r.version != b"HTTP/1.1":
        r.close = True
    exp = hm.get(b"expect")
    r.expect100 = bool(exp) and exp[0].lower() == b"100-continue" and r.version == b"HTTP/1.1"

    if effective_te:
        if len(tes) != 1 or len(codings) != 1 or codings[0].lower() != b"chunked":
            if effective_te == [b"chunked"] and names[-1] == b"chunked" and codings[-1].lower() == b"chunked":
                note("te-list-with-identity")
            else:
                return (Stop("undefined", "transfer-encoding-list", r.start, codings[:4]), notes)
        if r.version == b"HTTP/1.0":
            note("te-in-http10")
        ch = decode_chunked(data, p)
        if ch.status == "incomplete":
            return (Stop("incomplete", "chunked-body:" + ch.reason, r.start), notes)
        if ch.status == "reject":
            return (Stop("reject", ch.reason, r.start, ch.end), notes)
        for x in ch.notes:
            note(x)
        r.framing, r.body, r.end, r.trailers = "chunked", ch.body, ch.end, ch.trailers
        r.chunk_sizes = ch.sizes
    elif cls:
        n = int(cls[0])
        if len(cls[0]) > 18:
            note("content-length-many-digits")
        if len(data) - p < n:
            return (Stop("incomplete", "content-length-body", r.start), notes)
        r.framing, r.body, r.end = "cl", data[p:p + n], p + n
    else:
        r.framing, r.body, r.end = "none", b"", p
    return r


def parse_stream(data, lf_mode=False, limit=64):
    """Sequentially parse pipelined requests.  -> (list of Req, Stop)."""
    reqs = []
    pos = 0
    while len(reqs) < limit:
        x = parse_request(data, pos, lf_mode)
        if isinstance(x, Stop):
            return reqs, x
        reqs.append(x)
        pos = x.end
    return reqs, Stop("end", "limit", pos)


# ------------------------------------------------------------------------------------------------
# lenient response reader
# ------------------------------------------------------------------------------------------------
class Resp:
    def __init__(self):
        self.start = self.end = 0
        self.status_line = b""
        self.version = self.code = self.reason = None
        self.header_lines = []  # raw lines between the status line and the empty line
        self.headers = []  # (name, value stripped of OWS); lines without colon -> (None, line)
        self.body = b""
        self.framing = "none"
        self.complete = False
        self.problem = None
        self.chunked = None

    def header_map(self):
        m = {}
        for n, v in self.headers:
            if n is not None:
                m.setdefault(n.lower(), []).append(v)
        return m

    def as_dict(self):
        return {"status_line": self.status_line, "header_lines": self.header_lines, "framing": self.framing, "body": self.body,
                "complete": self.complete, "problem": self.problem, "start": self.start, "end": self.end}


def read_response(data, pos=0, head=False):
    """Read one response at data[pos:] (end of data == connection closed).  Always returns a Resp;
    `complete` is False (and `problem` set) when the bytes do not form a whole response."""
    r = Resp()
    r.start = pos
    e = data.find(b"\r\n\r\n", pos)
    if e < 0:
        r.problem = "no-end-of-head"
        r.end = len(data)
        return r
    lines = data[pos:e].split(b"\r\n")
    r.status_line = lines[0]
    parts = lines[0].split(b" ", 2)
    if len(parts) >= 2:
        r.version, r.code = parts[0], parts[1]
        r.reason = parts[2] if len(parts) == 3 else None
    r.header_lines = lines[1:]
    for l in lines[1:]:
        if b":" in l:
            n, v = l.split(b":", 1)
            r.headers.append((n, v.strip(b" \t")))
        else:
            r.headers.append((None, l))
    p = e + 4
    hm = r.header_map()
    code = r.code or b""
    te = [t.strip(b" \t").lower() for v in hm.get(b"transfer-encoding", []) for t in v.split(b",")]
    cl = hm.get(b"content-length", [])
    if head or code[:1] == b"1" or code in (b"204", b"304"):
        r.framing, r.end, r.complete = "none", p, True
    elif te and te[-1] == b"chunked":
        r.framing = "chunked"
        ch = decode_chunked(data, p)
        r.chunked = ch
        r.body, r.end = ch.body, ch.end
        if ch.status == "ok":
            r.complete = True
        else:
            r.problem = "chunked-" + ch.status + ":" + str(ch.reason)
            r.end = len(data)
    elif cl:
        r.framing = "cl"
        if len(cl) == 1 and cl[0].isdigit():
            n = int(cl[0])
            r.body = data[p:p + n]
            r.end = min(len(data), p + n)
            r.complete = len(data) - p >= n
            if not r.complete:
                r.problem = "short-body"
        else:
            r.problem = "bad-content-length"
            r.end = len(data)
    else:
        r.framing, r.body, r.end, r.complete = "close", data[p:], len(data), True
    return r


def read_responses(data, heads=(), limit=200):
    """Read consecutive responses; heads[i] says whether the i-th *final* response answers a HEAD.
    -> (list of Resp, offset of unparsed leftover)."""
    out = []
    pos = 0
    k = 0
    while pos < len(data) and len(out) < limit:
        h = heads[k] if k < len(heads) else False
        r = read_response(data, pos, h)
        out.append(r)
        if not r.complete:
            return out, r.start
        if not (r.code or b"")[:1] == b"1":
            k += 1
        pos = r.end
    return out, pos


# ------------------------------------------------------------------------------------------------
# generators
# ------------------------------------------------------------------------------------------------
BAIT = b"GET /smuggled HTTP/1.1\r\nHost: bait\r\n\r\n"
_METHODS = [b"GET", b"POST", b"PUT", b"HEAD", b"DELETE", b"OPTIONS", b"PATCH", b"get", b"M-SEARCH", b"X!#$%&'*+-.^_`|~9"]
_HNAMES = [b"X-A", b"Accept", b"User-Agent", b"x-lower", b"X-UPPER", b"Cookie", b"Content-Type", b"X_under.dot", b"If-Match", b"Referer"]
_VCHARS = bytes(range(0x21, 0x7F))


def rand_body(rng, maxlen=60):
    r = rng.random()
    if r < 0.25:
        return BAIT
    if r < 0.35:
        return b"0\r\n\r\n" + BAIT
    n = rng.choice([0, 1, 2, 5, 16, 17, 31, maxlen]) if rng.random() < 0.5 else rng.randint(0, maxlen)
    if rng.random() < 0.5:
        return bytes(rng.randrange(256) for _ in range(n))
    return bytes(rng.choice(b"abcxyz\r\n 0123456789:;GET/") for _ in range(n))


def encode_chunked(rng, body, canonical=True, trailers=True):
    """A valid chunked encoding of body (random cut points, hex case, leading zeros, extensions)."""
    out = bytearray()
    i = 0
    while i < len(body):
        n = rng.randint(1, max(1, len(body) - i)) if rng.random() < 0.6 else min(len(body) - i, rng.randint(1, 8))
        sz = ("%x" if rng.random() < 0.5 else "%X") % n
        if rng.random() < 0.2:
            sz = "0" * rng.randint(1, 6) + sz
        out += sz.encode() + _gen_ext(rng) + b"\r\n" + body[i:i + n] + b"\r\n"
        i += n
    out += (b"0" * rng.randint(1, 3) if rng.random() < 0.2 else b"0") + _gen_ext(rng) + b"\r\n"
    if trailers and rng.random() < 0.2:
        for _ in range(rng.randint(1, 3)):
            out += b"X-Trailer-%d: %s\r\n" % (rng.randrange(10), bytes(rng.choice(_VCHARS) for _ in range(rng.randint(0, 12))))
    out += b"\r\n"
    return bytes(out)


def _gen_ext(rng):
    if rng.random() < 0.75:
        return b""
    out = b""
    for _ in range(rng.randint(1, 2)):
        out += b";" + rng.choice([b"a", b"ext", b"n-1", b"x_y"])
        r = rng.random()
        if r < 0.3:
            out += b"=" + rng.choice([b"v", b"123", b"t.k"])
        elif r < 0.5:
            out += b'="' + bytes(rng.choice(b"abc ,;=\t\xe9/") for _ in range(rng.randint(0, 6))) + b'"'
    return out


def gen_valid_request(rng, rid, allow_close=True, last=False):
    """A canonical (zone accept, h11-compatible) request carrying id `rid` in its target."""
    method = rng.choice(_METHODS[:7]) if rng.random() < 0.85 else rng.choice(_METHODS)
    target = b"/r%d" % rid
    if rng.random() < 0.4:
        target += b"?" + bytes(rng.choice(_VCHARS) for _ in range(rng.randint(1, 10)))
    version = b"HTTP/1.1"
    close = False
    if allow_close and rng.random() < (0.5 if last else 0.06):
        if rng.random() < 0.5:
            version = b"HTTP/1.0"
        close = True
    headers = []
    if version == b"HTTP/1.1" or rng.random() < 0.5:
        headers.append((rng.choice([b"Host", b"host", b"HOST"]), rng.choice([b"example.com", b"h:8080", b"[::1]"])))
    for _ in range(rng.randint(0, 4)):
        n = rng.choice(_HNAMES)
        v = bytes(rng.choice(_VCHARS + b"  \t\xe9\xff") for _ in range(rng.randint(0, 14))).strip(b" \t")
        headers.append((n, v))
    if close and version == b"HTTP/1.1":
        headers.append((rng.choice([b"Connection", b"connection"]), rng.choice([b"close", b"Close", b"keep-alive, close"])))
    payload = b""
    r = rng.random()
    has_body = method not in (b"GET", b"HEAD", b"get") or r < 0.2
    if has_body:
        body = rand_body(rng)
        if version == b"HTTP/1.1" and rng.random() < 0.5:
            headers.append((rng.choice([b"Transfer-Encoding", b"transfer-encoding", b"TRANSFER-ENCODING"]), rng.choice([b"chunked", b"Chunked", b"CHUNKED"])))
            payload = encode_chunked(rng, body)
        else:
            cl = b"%d" % len(body)
            if rng.random() < 0.1:
                cl = b"0" * rng.randint(1, 3) + cl
            headers.append((rng.choice([b"Content-Length", b"content-length", b"CONTENT-LENGTH"]), cl))
            payload = body
        if version == b"HTTP/1.1" and rng.random() < 0.12:
            headers.append((b"Expect", rng.choice([b"100-continue", b"100-Continue"])))
    rng.shuffle(headers)
    out = bytearray(method + b" " + target + b" " + version + b"\r\n")
    for n, v in headers:
        ows1 = rng.choice([b" ", b" ", b" ", b"", b"\t", b"  "])
        ows2 = rng.choice([b"", b"", b"", b" ", b"\t"])
        out += n + b":" + ows1 + v + ows2 + b"\r\n"
    out += b"\r\n" + payload
    return bytes(out)


# framing-relevant header blocks (each a list of raw lines); C19 enumerates these
def framing_variants():
    cl = [b"Content-Length: 5", b"Content-Length:5", b"content-length:\t5\t", b"Content-Length: 05", b"Content-Length: +5",
          b"Content-Length: -5", b"Content-Length: 0x5", b"Content-Length: 5.0", b"Content-Length: 5, 5", b"Content-Length: 5,6",
          b"Content-Length: 5 5", b"Content-Length: ", b"Content-Length:", b"Content-Length: five", b"Content-Length: 5\x0b",
          b"Content-Length: \xb5", b"Content-Length: 5e0", b"Content-Length: 1_0", b"Content-Length : 5", b"Content-Length\t: 5",
          b" Content-Length: 5", b"Content_Length: 5", b"Content-Length: 4", b"Content-Length: 6", b"Content-Length: 0",
          b"Content-Length:\r\n 5", b"Content-Length: 1\r\n 0", b"Content-Length: 5\x00", b"Content-Length: 5\r", b"Content-Length: \n5",
          b"Content-Length: 000000000000000000005", b"CONTENT-LENGTH: 5", b"Content-Length: 5;q=1", b"Content-Length: \"5\"",
          b"Content-Length: 9223372036854775807", b"Content-Length: 9223372036854775808", b"Content-Length: 18446744073709551616",
          b"Content-Length: 00", b"Content-Length: 5\t\t", b"Content-Length: \t 5"]
    te = [b"Transfer-Encoding: chunked", b"transfer-encoding:chunked", b"Transfer-Encoding:\tChunked\t", b"Transfer-Encoding: CHUNKED",
          b"Transfer-Encoding: identity", b"Transfer-Encoding: gzip", b"Transfer-Encoding: gzip, chunked", b"Transfer-Encoding: chunked, gzip",
          b"Transfer-Encoding: chunked, chunked", b"Transfer-Encoding: identity, chunked", b"Transfer-Encoding: chunked, identity",
          b"Transfer-Encoding: xchunked", b"Transfer-Encoding: chunkedx", b"Transfer-Encoding: x chunked", b"Transfer-Encoding: \"chunked\"",
          b"Transfer-Encoding: chunked;q=1", b"Transfer-Encoding: chunked\x0b", b"Transfer-Encoding: \x0bchunked", b"Transfer-Encoding: chunked\x00",
          b"Transfer-Encoding : chunked", b"Transfer-Encoding\t: chunked", b" Transfer-Encoding: chunked", b"Transfer_Encoding: chunked",
          b"Transfer-Encoding:\r\n chunked", b"Transfer-Encoding: chun\r\n ked", b"Transfer-Encoding: ,chunked", b"Transfer-Encoding: chunked,",
          b"Transfer-Encoding: ", b"Transfer-Encoding: \xe7hunked", b"Transfer-Encoding: chunked\r", b"Transfer-Encoding: \nchunked",
          b"Transfer-Encoding: compress", b"Transfer-Encoding: deflate, chunked", b"Transfer-Encoding: cHuNkEd", b"X: y\nTransfer-Encoding: chunked",
          b"Transfer-Encoding\x00: chunked", b"Transfer-Encoding: chunked\tx"]
    return cl, te


def hostile_chunk_lines():
    """Size lines for a 5-byte chunk: valid and invalid spellings."""
    return [b"5", b"05", b"0005", b"5;a", b"5;a=b", b'5;a="b c"', b"5 ;a", b"5; a", b"5;a =b", b"5;", b"5;;", b"5;=", b"0x5", b"+5", b"-5",
            b" 5", b"5 ", b"\t5", b"5\t", b"", b"5h", b"g", b"5,5", b"5.0", b"5\r", b"5\n", b"\n5", b"5;a\x00", b"5;a\x7f", b"5;a\x0b", b"5;\xe9",
            b"5;a=\"b\\\"c\"", b"5;a=\"", b"0000000000000000000000005", b"00000000000000005", b"5;" + b"e" * 990, b"5;" + b"e" * 1100, b"\xb5", b"5\x00",
            b"5 5", b"5_0", b"5;a\r", b"5;a\nb", b"7fffffffffffffff", b"8000000000000000", b"ffffffffffffffff", b"10000000000000000",
            b"7FFFFFFFFFFFFFFF;x", b"0000000000000005", b"5;" + b"e" * 1020, b"5;" + b"e" * 1021, b"5;" + b"e" * 1022]


def gen_hostile_request(rng, rid):
    """One request built around a framing/syntax attack knob; returns (bytes, knob name)."""
    cls, tes = framing_variants()
    body5 = rng.choice([b"hello", b"GET /", b"0\r\n\r\n", b"\r\n\r\n\r"])
    chunked5 = b"5\r\n" + body5 + b"\r\n0\r\n\r\n"
    method, target, version = b"POST", b"/r%d" % rid, b"HTTP/1.1"
    lines = [b"Host: h"]
    payload = b""
    knob = rng.choice(["cl", "te", "cl+te", "te+cl", "cl+cl", "te+te", "chunkline", "chunkcrlf", "reqline", "hname", "hvalue", "fold", "lead",
                       "blank", "version", "barelf", "trailer", "short"])
    if knob == "cl":
        lines.append(rng.choice(cls))
        payload = body5 + (BAIT if rng.random() < 0.5 else b"")
    elif knob == "te":
        lines.append(rng.choice(tes))
        payload = chunked5
    elif knob in ("cl+te", "te+cl"):
        a, b = rng.choice(cls[:6] + cls), rng.choice(tes[:5] + tes)
        lines += [a, b] if knob == "cl+te" else [b, a]
        payload = rng.choice([chunked5, body5 + BAIT, b"0\r\n\r\n" + BAIT])
    elif knob == "cl+cl":
        lines += [rng.choice(cls[:4] + cls), rng.choice(cls[:4] + cls)]
        payload = body5 + BAIT
    elif knob == "te+te":
        lines += [rng.choice(tes[:5] + tes), rng.choice(tes[:5] + tes)]
        payload = chunked5
    elif knob == "chunkline":
        lines.append(b"Transfer-Encoding: chunked")
        sl = rng.choice(hostile_chunk_lines())
        last = rng.choice([b"0", b"0", b"0", b"00", b"0;x", b"0 ", b" 0", b"0x0", b"-0"])
        payload = sl + b"\r\n" + body5 + b"\r\n" + last + b"\r\n\r\n"
    elif knob == "chunkcrlf":
        lines.append(b"Transfer-Encoding: chunked")
        end = rng.choice([b"\r\n", b"\n", b"\r", b"\n\r", b"", b"XX", b"\r\r\n", b"\r\nX", b" \r\n"])
        payload = b"5\r\n" + body5 + end + b"0\r\n\r\n" + (BAIT if rng.random() < 0.5 else b"")
    elif knob == "reqline":
        reqline = rng.choice([b"GET / HTTP/1.1", b"GET  / HTTP/1.1", b"GET /  HTTP/1.1", b"GET\t/ HTTP/1.1", b" GET / HTTP/1.1", b"GET / HTTP/1.1 ",
                              b"GET /", b"GET", b"GET / HTTP/1.1 x", b"G@T / HTTP/1.1", b"G(T / HTTP/1.1", b"GET / http/1.1", b"GET / HTTP/1.10",
                              b"GET / HTTP/11", b"GET / HTTP/1.", b"GET / HTTP/2.0", b"GET / HTTP/0.9", b"GET / HTTP/1.2", b"GET / HTTP/9.9",
                              b"GET / HTTPS/1.1", b"GET /a b HTTP/1.1", b"GET /\x00 HTTP/1.1", b"GET /\x7f HTTP/1.1", b"GET /\x80 HTTP/1.1",
                              b"GET /\xb0 HTTP/1.1", b"GET /\xb1 HTTP/1.1", b"GET /\xff HTTP/1.1", b"GET /\x0b HTTP/1.1", b"GET /\r HTTP/1.1",
                              b"GET /\n HTTP/1.1", b"\x00GET / HTTP/1.1", b"GET\x00 / HTTP/1.1", b"G\xe9T / HTTP/1.1", b"GET / HTTP/1.1\r", b": / HTTP/1.1",
                              b"GET * HTTP/1.1", b"GET http://h/x HTTP/1.1", b"CONNECT h:80 HTTP/1.1", b"GET /#frag HTTP/1.1", b"GET /a\tb HTTP/1.1"])
        return reqline.replace(b" /", b" /r%d" % rid, 1) + b"\r\nHost: h\r\n\r\n", "reqline"
    elif knob == "hname":
        lines.append(rng.choice([b"X A: v", b"X-A : v", b"X-A\t: v", b": v", b"X\x00A: v", b"X\xe9: v", b"X(A): v", b"no colon here", b"X-A", b"X@A: v",
                                 b"X\x7f: v", b"X\rA: v", b"X-A:v:w", b"\"X\": v", b"X/A: v", b"X[A]: v", b"=: v", b"X-A\x0b: v"]))
    elif knob == "hvalue":
        lines.append(b"X-V: a" + bytes([rng.choice([0, 0, 1, 8, 9, 11, 12, 13, 10, 27, 31, 127, 128, 255])]) + b"b")
        if rng.random() < 0.5:
            lines.append(b"Content-Length: 5")
            payload = body5
    elif knob == "fold":
        lines += [b"X-F: a", rng.choice([b" ", b"\t"]) + rng.choice([b"b", b"Content-Length: 5", b"", b" \t "])]
        if rng.random() < 0.5:
            lines += [b"Content-Length: 5"]
            payload = body5
    elif knob == "lead":
        lines = [rng.choice([b" X-L: v", b"\tHost: h", b" ", b" Content-Length: 5"])] + lines
    elif knob == "blank":
        pre = rng.choice([b"\r\n", b"\r\n\r\n", b"\n", b"\r\n\r\n\r\n", b"\r", b" \r\n"])
        return pre + b"GET /r%d HTTP/1.1\r\nHost: h\r\n\r\n" % rid, "blank"
    elif knob == "version":
        version = rng.choice([b"HTTP/1.0", b"HTTP/1.0", b"HTTP/2.0", b"HTTP/0.9", b"HTTP/1.2", b"HTTP/3.0"])
        if rng.random() < 0.5:
            lines.append(b"Transfer-Encoding: chunked")
            payload = chunked5
    elif knob == "barelf":
        nl = rng.choice([b"\n", b"\r", b"\n\r", b"\r\r\n"])
        raw = b"POST /r%d HTTP/1.1" % rid + rng.choice([b"\r\n", nl]) + b"Host: h" + rng.choice([b"\r\n", nl]) + b"Content-Length: 5" + rng.choice([b"\r\n", nl])
        raw += rng.choice([b"\r\n", nl]) + body5
        return raw, "barelf"
    elif knob == "trailer":
        lines.append(b"Transfer-Encoding: chunked")
        tr = rng.choice([b"X-T: v\r\n", b"no colon\r\n", b"X T: v\r\n", b" folded\r\n", b"X-T: \x00\r\n", b"Content-Length: 99\r\n", b"X-T: v\n", b"A: b\r\nC: d\r\n"])
        payload = b"5\r\n" + body5 + b"\r\n0\r\n" + tr + b"\r\n"
    elif knob == "short":
        lines.append(rng.choice([b"Content-Length: 50", b"Content-Length: 99999999999999999999", b"Transfer-Encoding: chunked"]))
        payload = rng.choice([b"5\r\nhel", b"5\r\nhello", b"5\r\nhello\r", b"5", b"5\r", b"5\r\nhello\r\n0\r\n", b"5\r\nhello\r\n0\r\n\r", b"ffffffffffffffffffff\r\nxx"])
    rng.shuffle(lines)
    out = method + b" " + target + b" " + version + b"\r\n" + b"\r\n".join(lines) + b"\r\n\r\n" + payload
    return out, knob


_STRUCT_BYTES = b"\r\n :;,\t0159afx\x00\x0b\x7f\x80\xff-+\"\\"


def mutate_bytes(rng, data, n=None):
    """Byte-level mutations biased to structural bytes."""
    b = bytearray(data)
    for _ in range(n if n is not None else rng.choice([1, 1, 1, 2, 3])):
        if not b:
            b.append(rng.randrange(256))
            continue
        i = rng.randrange(len(b))
        op = rng.random()
        new = rng.choice(_STRUCT_BYTES) if rng.random() < 0.7 else rng.randrange(256)
        if op < 0.4:
            b[i] = new
        elif op < 0.65:
            b.insert(i, new)
        elif op < 0.85:
            del b[i]
        elif op < 0.93:
            j = min(len(b), i + rng.randint(1, 12))
            b[i:i] = b[i:j]
        else:
            j = min(len(b), i + rng.randint(1, 12))
            del b[i:j]
    return bytes(b)


def gen_stream(rng, profile="mixed", max_requests=4):
    """A pipelined request stream.  profile: valid / hostile / mutated / mixed.
    -> (bytes, description list)"""
    if profile == "mixed":
        profile = rng.choice(["valid", "valid", "hostile", "hostile", "mutated"])
    n = rng.randint(1, max_requests)
    parts = []
    desc = []
    for i in range(n):
        if profile == "hostile" and (i == n - 1 or rng.random() < 0.3):
            raw, knob = gen_hostile_request(rng, i)
            desc.append(knob)
        else:
            raw = gen_valid_request(rng, i, allow_close=True, last=(i == n - 1))
            desc.append("valid")
        parts.append(raw)
        if rng.random() < 0.12:
            parts.append(b"\r\n")  # the extra blank line some clients send after a request (also between pipelined ones)
            desc.append("crlf")
    data = b"".join(parts)
    if profile == "mutated":
        data = mutate_bytes(rng, data)
        desc.append("mutated")
    if rng.random() < 0.08:
        data = data[:rng.randint(0, len(data))]
        desc.append("truncated")
    return data, desc


# ------------------------------------------------------------------------------------------------
# self test (hand-written vectors)
# ------------------------------------------------------------------------------------------------
def selftest():
    def one(data, **kw):
        return parse_request(data, 0, **kw)

    ok = one(b"GET /a?b HTTP/1.1\r\nHost: x\r\nX-A:  v \t\r\n\r\nNEXT")
    assert isinstance(ok, Req) and ok.zone == "accept" and ok.end == len(b"GET /a?b HTTP/1.1\r\nHost: x\r\nX-A:  v \t\r\n\r\n"), ok
    assert (ok.method, ok.target, ok.version, ok.body, ok.framing) == (b"GET", b"/a?b", b"HTTP/1.1", b"", "none")
    assert ok.headers == [(b"Host", b"x"), (b"X-A", b"v")] and not ok.close
    r = one(b"POST / HTTP/1.0\r\nContent-Length: 5\r\n\r\nhelloGET")
    assert r.body == b"hello" and r.framing == "cl" and r.zone == "accept" and r.end == 43 and r.close, (r.end,)
    assert one(b"POST / HTTP/1.1\r\nContent-Length: 5\r\n\r\nhello").notes == ["host-missing-or-repeated"]
    r = one(b"POST / HTTP/1.1\r\nContent-Length: 5\r\n\r\nhell")
    assert isinstance(r, Stop) and r.kind == "incomplete"
    r = one(b"POST / HTTP/1.1\r\nHost: h\r\nTransfer-Encoding: chunked\r\n\r\n5\r\nhello\r\n3;x=y\r\nabc\r\n0\r\nT: v\r\n\r\nREST")
    assert r.body == b"helloabc" and r.framing == "chunked" and r.zone == "accept" and r.trailers == [b"T: v"], r.as_dict()
    assert r.end == len(b"POST / HTTP/1.1\r\nHost: h\r\nTransfer-Encoding: chunked\r\n\r\n5\r\nhello\r\n3;x=y\r\nabc\r\n0\r\nT: v\r\n\r\n")

    def rej(data, reason):
        x = one(data)
        assert isinstance(x, Stop) and x.kind == "reject" and x.reason == reason, (data, x)

    H = b"POST / HTTP/1.1\r\n"
    rej(H + b"Content-Length: 5\r\nTransfer-Encoding: chunked\r\n\r\n", "both-cl-and-te")
    rej(H + b"Transfer-Encoding: chunked\r\nContent-Length: 5\r\n\r\n", "both-cl-and-te")
    rej(H + b"Content-Length: 5\r\nContent-Length: 5\r\n\r\nhello", "content-length-repeated")
    for bad in (b"+5", b"-5", b"0x5", b"5, 5", b"", b"5 5", b"five", b"5\x0b", b"\xb2"):
        rej(H + b"Content-Length: " + bad + b"\r\n\r\nhello", "content-length-not-decimal")
    rej(H + b"Content-Length: 1\r\n 2\r\n\r\nhello", "content-length-not-decimal")
    for bad in (b"gzip", b"gzip, chunked", b"chunked, gzip", b"xchunked", b'"chunked"', b"chunked\x0b", b"x chunked"):
        rej(H + b"Transfer-Encoding: " + bad + b"\r\n\r\n0\r\n\r\n", "transfer-coding-unsupported")
    rej(b"GET /\r\n\r\n", "request-line-shape")
    rej(b"GET / HTTP/1.1 x\r\n\r\n", "request-line-shape")
    rej(b"G@T / HTTP/1.1\r\n\r\n", "method-not-token")
    for c in (0, 0x7F, 0x80, 0xB0, 0xB1, 0xFF):
        rej(b"GET /" + bytes([c]) + b" HTTP/1.1\r\n\r\n", "target-byte")
    for v in (b"http/1.1", b"HTTP/1.10", b"HTTP/11", b"HTTP/1.", b"HTTPS/1.1"):
        rej(b"GET / " + v + b"\r\n\r\n", "version-syntax")
    rej(H + b"X A: v\r\n\r\n", "header-name-not-token")
    rej(H + b"X-A : v\r\n\r\n", "header-name-not-token")
    rej(H + b": v\r\n\r\n", "header-name-not-token")
    rej(H + b"nocolon\r\n\r\n", "header-no-colon")
    rej(H + b"X: a\x00b\r\n\r\n", "header-value-nul")
    TE = H + b"Transfer-Encoding: chunked\r\n\r\n"
    for sl in (b"0x5", b"+5", b"-5", b" 5", b"5 ", b"", b"5h", b"5\n"):
        rej(TE + sl + b"\r\nhello\r\n0\r\n\r\n", "chunk-size-not-hex")
    rej(TE + b"5;a\x00\r\nhello\r\n0\r\n\r\n", "chunk-ext-ctl")
    rej(TE + b"5\r\nhelloXX0\r\n\r\n", "chunk-data-not-followed-by-crlf")
    rej(TE + b"5\r\nhello\n0\r\n\r\n", "chunk-data-not-followed-by-crlf")
    # incomplete: defects are only reported when fully present
    assert one(b"GET /\x80 HTTP/1.1\r\nHost: x\r\n").kind == "incomplete"
    assert one(TE + b"5\r\nhelloX").kind == "incomplete"
    assert one(TE + b"0x5").kind == "incomplete"
    assert one(b"").kind == "end" and one(b"\r\n").kind == "end"

    def dc(data, note_, **kw):
        x = one(data, **kw)
        assert isinstance(x, Req) and note_ in x.notes, (data, x)
        return x

    dc(b"\r\nGET / HTTP/1.1\r\n\r\n", "leading-empty-line")
    dc(b"GET  / HTTP/1.1\r\n\r\n", "request-line-whitespace")
    dc(b"GET / HTTP/2.0\r\n\r\n", "version-unsupported")
    x = dc(H + b"Content-Length:\r\n 5\r\n\r\nhelloX", "obs-fold")
    assert x.body == b"hello"
    dc(H + b" lead: x\r\nHost: h\r\n\r\n", "leading-whitespace-line")
    dc(H + b"X: a\x01b\r\n\r\n", "header-value-ctl")
    x = dc(H + b"Transfer-Encoding: identity\r\nContent-Length: 5\r\n\r\nhello", "te-identity")
    assert x.body == b"hello" and x.framing == "cl"
    x = dc(TE + b"5 ;a\r\nhello\r\n0\r\n\r\n", "bws-before-chunk-ext")
    assert x.body == b"hello"
    dc(TE + b"5;;\r\nhello\r\n0\r\n\r\n", "chunk-ext-irregular")
    dc(TE + b'5;a="b\\"c"\r\nhello\r\n0\r\n\r\n', "chunk-ext-irregular")
    dc(TE + b"5\r\nhello\r\n0\r\nno colon\r\n\r\n", "trailer-irregular")
    x = one(H + b"Transfer-Encoding: chunked, chunked\r\n\r\n0\r\n\r\n")
    assert isinstance(x, Stop) and x.kind == "undefined"
    x = dc(b"POST / HTTP/1.0\r\nTransfer-Encoding: chunked\r\n\r\n0\r\n\r\n", "te-in-http10")
    assert x.close
    # LF mode
    x = one(b"POST / HTTP/1.1\nHost: h\r\nContent-Length: 2\n\nhiX", lf_mode=True)
    assert isinstance(x, Req) and x.body == b"hi" and x.headers[0] == (b"Host", b"h")
    # bare LF inside a value in CRLF mode stays in the value
    x = dc(H + b"X: a\nContent-Length: 5\r\n\r\nhello", "header-value-ctl")
    assert x.framing == "none" and x.body == b""
    # streams
    reqs, stop = parse_stream(b"GET /0 HTTP/1.1\r\nHost: h\r\n\r\nPOST /1 HTTP/1.1\r\nContent-Length: 3\r\n\r\nabcGET /2 HTTP/1.1\r\nConnection: close\r\n\r\n")
    assert [r.target for r in reqs] == [b"/0", b"/1", b"/2"] and stop.kind == "end" and reqs[2].close and not reqs[1].close
    assert reqs[1].start == reqs[0].end and reqs[2].start == reqs[1].end
    # chunked alone
    c = decode_chunked(b"A\r\n0123456789\r\n00\r\n\r\nrest")
    assert c.status == "ok" and c.body == b"0123456789" and c.end == 21 and c.sizes == [10, 0]
    assert decode_chunked(b"1\r\na\r\n0\r\n\r").status == "incomplete"
    # responses
    rs, left = read_responses(b"HTTP/1.1 100 Continue\r\n\r\nHTTP/1.1 200 OK\r\nContent-Length: 2\r\nX: \ty \r\n\r\nhiHTTP/1.1 400 Bad Request\r\n\r\n")
    assert [r.code for r in rs] == [b"100", b"200", b"400"] and rs[1].body == b"hi" and rs[1].headers[1] == (b"X", b"y") and rs[2].framing == "close"
    rs, left = read_responses(b"HTTP/1.1 200 OK\r\nTransfer-Encoding: chunked\r\n\r\n2\r\nhi\r\n0\r\n\r\nHTTP/1.1 204 No Content\r\n\r\n")
    assert len(rs) == 2 and rs[0].body == b"hi" and rs[0].complete and rs[1].framing == "none" and left == len(b"HTTP/1.1 200 OK\r\nTransfer-Encoding: chunked\r\n\r\n2\r\nhi\r\n0\r\n\r\nHTTP/1.1 204 No Content\r\n\r\n")
    rs, left = read_responses(b"HTTP/1.1 200 OK\r\nContent-Length: 9\r\n\r\n", heads=[True])
    assert rs[0].complete and rs[0].body == b""
    rs, left = read_responses(b"HTTP/1.1 200 OK\r\nX: a\r\nInjected: 1\r\n\r\n")
    assert rs[0].header_lines == [b"X: a", b"Injected: 1"]
    rs, left = read_responses(b"HTTP/1.1 200 OK\r\nTransfer-Encoding: chunked\r\n\r\n2\r\nhi\r\n")
    assert not rs[0].complete
    # generators: valid requests are zone accept and reproduce their ids
    import random

    rng = random.Random(7)
    for i in range(300):
        raw = gen_valid_request(rng, i)
        x = parse_request(raw)
        assert isinstance(x, Req) and x.zone == "accept" and x.end == len(raw) and x.target.startswith(b"/r%d" % i), (raw, x)
        body = rand_body(rng)
        enc = encode_chunked(rng, body)
        c = decode_chunked(enc + b"tail")
        assert c.status == "ok" and c.body == body and c.end == len(enc), (enc, c.notes)
    kinds = set()
    for i in range(2000):
        raw, knob = gen_hostile_request(rng, i)
        x = parse_request(raw)
        kinds.add((knob, x.kind if isinstance(x, Stop) else x.zone))
        data, desc = gen_stream(rng)
        parse_stream(data)
        parse_stream(data, lf_mode=True)
    assert len(kinds) > 30, kinds
    return True


if __name__ == "__main__":
    selftest()
    print("refhttp selftest ok")
