#!/bin/sh
# Offline setup: third-party monitor libraries from the wheelhouse, and the dependency
# directory for the system interpreter (C17).  Idempotent; every check re-creates what it needs.
HERE="$(cd "$(dirname "$0")" && pwd)"
what="${1:-all}"
if [ "$what" = all ] || [ "$what" = deps ]; then
  if [ ! -d "$HERE/.deps/atheris" ]; then
    /venv/bin/pip install -q --no-index --find-links /opt/veriftools/wheels \
        --target "$HERE/.deps" atheris icontract deal >/dev/null 2>&1 || echo "setup: wheelhouse install failed (C33 falls back to its deterministic mutator)"
  fi
fi
if [ "$what" = all ] || [ "$what" = deps311 ]; then
  mkdir -p "$HERE/.deps311"
  SP=/venv/lib/python3.12/site-packages
  for m in attr attrs automat constantly hyperlink incremental idna zope typing_extensions.py; do
    [ -e "$HERE/.deps311/$m" ] || ln -s "$SP/$m" "$HERE/.deps311/$m"
  done
fi
mkdir -p "$HERE/evidence" "$HERE/replays"
if [ "$what" = all ]; then
  cd "$HERE" && PYTHONPATH="$HERE" /venv/bin/python -m vf.selftest || exit 1
fi
exit 0
